/-
Lane homomorphisms: maps between lane structures that commute with the lane-wise operations.
The projection of a row of lanes onto lane `j` (`row ↦ row[j]?`) and the embedding of a single
lane (`some`) are such maps; every model function written with `Lanes.mapN` commutes with them
("naturality"), for ARBITRARY scalar operations — which is lane independence, bit for bit.
-/
import NdInterp.Model.Spline

namespace NdInterp

variable {α : Type}

/-- `φ : V → W` commutes with the lane-wise operations -/
structure LanesHom {V W : Type} [Lanes α V] [Lanes α W] (φ : V → W) : Prop where
  const : ∀ (v : V) (c : α), φ (Lanes.const v c) = Lanes.const (φ v) c
  map1 : ∀ (f : α → α) (a : V), φ (Lanes.map1 f a) = Lanes.map1 f (φ a)
  map2 : ∀ (f : α → α → α) (a b : V), φ (Lanes.map2 f a b) = Lanes.map2 f (φ a) (φ b)
  map3 : ∀ (f : α → α → α → α) (a b c : V), φ (Lanes.map3 f a b c) = Lanes.map3 f (φ a) (φ b) (φ c)
  map4 : ∀ (f : α → α → α → α → α) (a b c d : V),
    φ (Lanes.map4 f a b c d) = Lanes.map4 f (φ a) (φ b) (φ c) (φ d)
  /-- rows that compare equal have equal images -/
  all2 : ∀ (p : α → α → Bool) (a b : V), Lanes.all2 p a b = true → Lanes.all2 p (φ a) (φ b) = true

theorem zipWith3_getElem? {β γ δ ε : Type} (f : β → γ → δ → ε) (a : List β) (b : List γ) (c : List δ)
    (j : Nat) :
    (zipWith3 f a b c)[j]? =
      (match a[j]?, b[j]?, c[j]? with
       | some x, some y, some z => some (f x y z)
       | _, _, _ => none) := by
  induction a generalizing b c j with
  | nil => simp [zipWith3]
  | cons x a ih =>
    cases b with
    | nil => simp [zipWith3]
    | cons y b =>
      cases c with
      | nil =>
        simp only [zipWith3, List.getElem?_nil]
        split <;> simp_all
      | cons z c =>
        cases j with
        | zero => simp [zipWith3]
        | succ j => simp only [zipWith3, List.getElem?_cons_succ]; exact ih b c j

theorem zipWith4_getElem? {β γ δ ε ζ : Type} (f : β → γ → δ → ε → ζ) (a : List β) (b : List γ)
    (c : List δ) (d : List ε) (j : Nat) :
    (zipWith4 f a b c d)[j]? =
      (match a[j]?, b[j]?, c[j]?, d[j]? with
       | some x, some y, some z, some w => some (f x y z w)
       | _, _, _, _ => none) := by
  induction a generalizing b c d j with
  | nil => simp [zipWith4]
  | cons x a ih =>
    cases b with
    | nil => simp [zipWith4]
    | cons y b =>
      cases c with
      | nil =>
        simp only [zipWith4, List.getElem?_nil]
        split <;> simp_all
      | cons z c =>
        cases d with
        | nil =>
          simp only [zipWith4, List.getElem?_nil]
          split <;> simp_all
        | cons w d =>
          cases j with
          | zero => simp [zipWith4]
          | succ j => simp only [zipWith4, List.getElem?_cons_succ]; exact ih b c d j

theorem all2List_getElem? (p : α → α → Bool) (a b : List α) (h : all2List p a b = true) (j : Nat) :
    (match a[j]?, b[j]? with
     | some x, some y => p x y
     | none, none => true
     | _, _ => false) = true := by
  induction a generalizing b j with
  | nil =>
    cases b with
    | nil => simp
    | cons y b => simp [all2List] at h
  | cons x a ih =>
    cases b with
    | nil => simp [all2List] at h
    | cons y b =>
      simp only [all2List, Bool.and_eq_true] at h
      cases j with
      | zero => simpa using h.1
      | succ j => simpa using ih b h.2 j

/-- projection of a row onto lane `j` -/
theorem projHom (j : Nat) : LanesHom (α := α) (V := List α) (W := Option α) (fun r => r[j]?) where
  const v c := by simp [Lanes.const]
  map1 f a := by simp [Lanes.map1]
  map2 f a b := by
    simp only [Lanes.map2, List.getElem?_zipWith]
    cases a[j]? <;> cases b[j]? <;> rfl
  map3 f a b c := by
    simp only [Lanes.map3]
    rw [zipWith3_getElem?]
    cases a[j]? <;> cases b[j]? <;> cases c[j]? <;> rfl
  map4 f a b c d := by
    simp only [Lanes.map4]
    rw [zipWith4_getElem?]
    cases a[j]? <;> cases b[j]? <;> cases c[j]? <;> cases d[j]? <;> rfl
  all2 p a b h := by
    simp only [Lanes.all2] at h ⊢
    have := all2List_getElem? p a b h j
    revert this
    cases a[j]? <;> cases b[j]? <;> exact id

/-- a single lane viewed as a present lane -/
theorem someHom : LanesHom (α := α) (V := α) (W := Option α) some where
  const _ _ := rfl
  map1 _ _ := rfl
  map2 _ _ _ := rfl
  map3 _ _ _ _ := rfl
  map4 _ _ _ _ _ := rfl
  all2 _ _ _ h := h

theorem rd_map {β γ : Type} (φ : β → γ) (l : List β) (i : Nat) :
    rd (l.map φ) i = (rd l i).map φ := by
  simp only [rd, List.getElem?_map]
  cases l[i]? <;> rfl

section nat
variable {V W : Type} [Lanes α V] [Lanes α W] (φ : V → W) (hφ : LanesHom (α := α) φ)
variable [Cmp α] [Add α] [Sub α] [Mul α] [Div α] [Neg α] [NatCast α] [ToUsize α] [RemEuclid α]

include hφ

/-- **naturality of `Linear::interp_into`** (arbitrary scalar operations) -/
theorem linearInterp_nat (ext : Bool) (xs : List α) (ys : List V) (q : α) :
    linearInterp ext xs (ys.map φ) q = (linearInterp ext xs ys q).map φ := by
  unfold linearInterp
  simp only [bind, Except.bind, rd_map]
  cases rangeGate ext xs q with
  | error e => rfl
  | ok _ =>
    cases lowerIndex xs q with
    | error e => rfl
    | ok i =>
      simp only []
      cases rd xs i with
      | error e => rfl
      | ok x1 =>
        cases rd ys i with
        | error e => rfl
        | ok y1 =>
          cases rd xs (i + 1) with
          | error e => rfl
          | ok x2 =>
            cases rd ys (i + 1) with
            | error e => rfl
            | ok y2 => simp only [Except.map, pure, Except.pure, hφ.map2]

/-- **naturality of `Bilinear::interp_into`** -/
theorem bilinearInterp_nat (ext : Bool) (xs ys : List α) (zs : List (List V)) (x y : α) :
    bilinearInterp ext xs ys (zs.map (·.map φ)) x y = (bilinearInterp ext xs ys zs x y).map φ := by
  unfold bilinearInterp
  simp only [bind, Except.bind, rd_map]
  cases rangeGate ext xs x with
  | error e => rfl
  | ok _ =>
    cases rangeGate ext ys y with
    | error e => rfl
    | ok _ =>
      cases lowerIndex xs x with
      | error e => rfl
      | ok i =>
        cases lowerIndex ys y with
        | error e => rfl
        | ok j =>
          simp only []
          cases rd xs i with
          | error e => rfl
          | ok x1 =>
            cases rd ys j with
            | error e => rfl
            | ok y1 =>
              cases rd zs i with
              | error e => rfl
              | ok r1 =>
                simp only [Except.map, rd_map]
                cases rd r1 j with
                | error e => rfl
                | ok z11 =>
                  cases rd r1 (j + 1) with
                  | error e => rfl
                  | ok z12 =>
                    cases rd zs (i + 1) with
                    | error e => rfl
                    | ok r2 =>
                      simp only [Except.map, rd_map]
                      cases rd r2 j with
                      | error e => rfl
                      | ok z21 =>
                        cases rd xs (i + 1) with
                        | error e => rfl
                        | ok x2 =>
                          cases rd ys (j + 1) with
                          | error e => rfl
                          | ok y2 =>
                            cases rd r2 (j + 1) with
                            | error e => rfl
                            | ok z22 => simp only [Except.map, pure, Except.pure, hφ.map4]

/-! ### the spline pipeline -/

def Row.mapRhs (r : Row α V) : Row α W := { lo := r.lo, mid := r.mid, up := r.up, rhs := φ r.rhs }
def ERow.mapRhs (r : ERow α V) : ERow α W := { mid := r.mid, up := r.up, rhs := φ r.rhs }

theorem fwd_nat (pm pu : α) (pr : V) (rows : List (Row α V)) :
    fwd pm pu (φ pr) (rows.map (Row.mapRhs φ)) = (fwd pm pu pr rows).map (ERow.mapRhs φ) := by
  induction rows generalizing pm pu pr with
  | nil => rfl
  | cons r rest ih =>
    simp only [List.map_cons, fwd, Row.mapRhs, ERow.mapRhs]
    rw [← hφ.map2]
    congr 1
    exact ih _ _ _

theorem fwdAll_nat (rows : List (Row α V)) :
    fwdAll (rows.map (Row.mapRhs φ)) = (fwdAll rows).map (ERow.mapRhs φ) := by
  cases rows with
  | nil => rfl
  | cons r rest =>
    simp only [List.map_cons, fwdAll]
    have := fwd_nat φ hφ r.mid r.up r.rhs rest
    simp only [Row.mapRhs, ERow.mapRhs] at this ⊢
    rw [this]

theorem back_nat (es : List (ERow α V)) :
    back (es.map (ERow.mapRhs φ)) = (back es).map φ := by
  induction es with
  | nil => rfl
  | cons e es ih =>
    cases es with
    | nil => simp [back, ERow.mapRhs, hφ.map1]
    | cons e2 rest =>
      simp only [List.map_cons] at ih ⊢
      simp only [back]
      rw [ih]
      cases back (e2 :: rest) with
      | nil => rfl
      | cons k ks => simp only [List.map_cons, ERow.mapRhs, hφ.map2]

theorem thomas_nat (rows : List (Row α V)) :
    thomas (rows.map (Row.mapRhs φ)) = (thomas rows).map φ := by
  simp only [thomas, fwdAll_nat φ hφ, back_nat φ hφ]

theorem interiorRows_nat (xs : List α) (ys : List V) :
    interiorRows xs (ys.map φ) = (interiorRows xs ys).map (Row.mapRhs φ) := by
  induction xs generalizing ys with
  | nil => cases ys <;> simp [interiorRows]
  | cons x0 xs ih =>
    match xs, ys with
    | [], _ => cases ys <;> simp [interiorRows]
    | [x1], ys => cases ys with
      | nil => simp [interiorRows]
      | cons y0 ys => cases ys with
        | nil => simp [interiorRows]
        | cons y1 ys => cases ys <;> simp [interiorRows]
    | x1 :: x2 :: xs', [] => simp [interiorRows]
    | x1 :: x2 :: xs', [y0] => simp [interiorRows]
    | x1 :: x2 :: xs', [y0, y1] => simp [interiorRows]
    | x1 :: x2 :: xs', y0 :: y1 :: y2 :: ys' =>
      simp only [List.map_cons, interiorRows, Row.mapRhs, hφ.map3]
      congr 1
      have := ih (y1 :: y2 :: ys')
      simpa using this

def Ends.mapY (e : Ends α V) : Ends α W :=
  { x0 := e.x0, x1 := e.x1, x2 := e.x2, xl1 := e.xl1, xl2 := e.xl2, xl3 := e.xl3,
    y0 := φ e.y0, y1 := φ e.y1, y2 := φ e.y2, yl1 := φ e.yl1, yl2 := φ e.yl2, yl3 := φ e.yl3 }

omit hφ in
theorem getEnds_nat (xs : List α) (ys : List V) :
    getEnds xs (ys.map φ) = (getEnds xs ys).map (Ends.mapY φ) := by
  unfold getEnds
  simp only [bind, Except.bind, rd_map, List.length_map]
  cases rd xs 0 <;> try rfl
  cases rd xs 1 <;> try rfl
  cases rd xs 2 <;> try rfl
  cases rd xs (ys.length - 1) <;> try rfl
  cases rd xs (ys.length - 2) <;> try rfl
  cases rd xs (ys.length - 3) <;> try rfl
  cases rd ys 0 <;> try rfl
  cases rd ys 1 <;> try rfl
  cases rd ys 2 <;> try rfl
  cases rd ys (ys.length - 1) <;> try rfl
  cases rd ys (ys.length - 2) <;> try rfl
  cases rd ys (ys.length - 3) <;> rfl

theorem firstRow_nat (e : Ends α V) (b : SingleBoundary α) :
    firstRow (Ends.mapY φ e) b = (firstRow e b).map (Row.mapRhs φ) := by
  cases b <;> simp [firstRow, Ends.mapY, Row.mapRhs, hφ.map3, hφ.map2, hφ.const, Ends.dx0, Ends.dx1]

theorem lastRow_nat (e : Ends α V) (b : SingleBoundary α) :
    lastRow (Ends.mapY φ e) b = (lastRow e b).map (Row.mapRhs φ) := by
  cases b <;> simp [lastRow, Ends.mapY, Row.mapRhs, hφ.map3, hφ.map2, hφ.const, Ends.dxl1, Ends.dxl2]

theorem parabolaRows_nat (e : Ends α V) :
    parabolaRows (Ends.mapY φ e) = (parabolaRows e).map (Row.mapRhs φ) := by
  simp [parabolaRows, Ends.mapY, Row.mapRhs, hφ.map1, hφ.map2, Ends.dx0, Ends.dx1]

theorem periodic3_nat (e : Ends α V) :
    periodic3 (Ends.mapY φ e) = (periodic3 e).map φ := by
  simp [periodic3, Ends.mapY, hφ.map1, hφ.map2, Ends.dx0, Ends.dx1]

theorem rhs2Rows_go_nat (like : V) (last : α) (rows : List (Row α V)) :
    rhs2Rows.go (φ like) last (rows.map (Row.mapRhs φ)) = (rhs2Rows.go like last rows).map (Row.mapRhs φ) := by
  induction rows with
  | nil => rfl
  | cons r rest ih =>
    cases rest with
    | nil => simp [rhs2Rows.go, Row.mapRhs, hφ.const]
    | cons r2 rest' =>
      simp only [List.map_cons] at ih ⊢
      simp only [rhs2Rows.go, Row.mapRhs, hφ.const, List.map_cons]
      congr 1

theorem rhs2Rows_nat (like : V) (first last : α) (rows : List (Row α V)) :
    rhs2Rows (φ like) first last (rows.map (Row.mapRhs φ)) =
      (rhs2Rows like first last rows).map (Row.mapRhs φ) := by
  cases rows with
  | nil => rfl
  | cons r rest =>
    cases rest with
    | nil => simp [rhs2Rows, Row.mapRhs, hφ.const]
    | cons r2 rest' =>
      simp only [List.map_cons, rhs2Rows, Row.mapRhs, hφ.const]
      congr 1
      have := rhs2Rows_go_nat φ hφ like last (r2 :: rest')
      simpa [Row.mapRhs] using this

theorem coeffs_nat (xs : List α) (ys ks : List V) :
    coeffs xs (ys.map φ) (ks.map φ) = (coeffs xs ys ks).map (fun p => (φ p.1, φ p.2)) := by
  induction xs generalizing ys ks with
  | nil => cases ys <;> cases ks <;> simp [coeffs]
  | cons x0 xs ih =>
    match xs, ys, ks with
    | [], _, _ => cases ys <;> cases ks <;> simp [coeffs]
    | x1 :: xs', [], _ => simp [coeffs]
    | x1 :: xs', [y0], _ => simp [coeffs]
    | x1 :: xs', y0 :: y1 :: ys', [] => simp [coeffs]
    | x1 :: xs', y0 :: y1 :: ys', [k0] => simp [coeffs]
    | x1 :: xs', y0 :: y1 :: ys', k0 :: k1 :: ks' =>
      simp only [List.map_cons, coeffs, hφ.map4]
      congr 1
      have := ih (y1 :: ys') (k1 :: ks')
      simpa using this

theorem periodicRow0_nat (e : Ends α V) :
    periodicRow0 (Ends.mapY φ e) = Row.mapRhs φ (periodicRow0 e) := by
  simp [periodicRow0, Ends.mapY, Row.mapRhs, hφ.map1, hφ.map2, Ends.dx0, Ends.dxl1]

theorem periodicRhsLast_nat (e : Ends α V) :
    periodicRhsLast (Ends.mapY φ e) = φ (periodicRhsLast e) := by
  simp [periodicRhsLast, Ends.mapY, hφ.map1, hφ.map2, Ends.dxl1, Ends.dxl2]

theorem periodicCombine_nat (dx_1 dx_2 : α) (len : Nat) (r : V) (k1 k2 : List V) :
    periodicCombine dx_1 dx_2 len (φ r) (k1.map φ) (k2.map φ) =
      (periodicCombine dx_1 dx_2 len r k1 k2).map (List.map φ) := by
  unfold periodicCombine
  simp only [bind, Except.bind, pure, Except.pure, rd_map]
  cases rd k1 0 with
  | error err => rfl
  | ok k10 =>
    cases rd k1 (len - 3) with
    | error err => rfl
    | ok k1l =>
      cases rd k2 0 with
      | error err => rfl
      | ok k20 =>
        cases rd k2 (len - 3) with
        | error err => rfl
        | ok k2l =>
          simp only [Except.map, ← hφ.map1, ← hφ.map2]
          rw [List.zipWith_map_left, List.zipWith_map_right]
          have hz : ∀ (l1 l2 : List V) (km : V),
              List.zipWith (fun a b => Lanes.map2 (fun a b => a + b) (φ a)
                (Lanes.map2 (fun km k2 => km * k2) (φ km) (φ b))) l1 l2 =
              (List.zipWith (fun a b => Lanes.map2 (fun a b => a + b) a
                (Lanes.map2 (fun km k2 => km * k2) km b)) l1 l2).map φ := by
            intro l1 l2 km
            rw [List.map_zipWith]
            congr 1
            funext a b
            rw [hφ.map2, hφ.map2]
          rw [hz, rd_map]
          cases rd (List.zipWith _ k1 k2) 0 with
          | error err => rfl
          | ok k0 => simp [Except.map]

theorem periodicN_nat (xs : List α) (ys : List V) (e : Ends α V) (xl4 : α) :
    periodicN xs (ys.map φ) (Ends.mapY φ e) xl4 = (periodicN xs ys e xl4).map (List.map φ) := by
  unfold periodicN
  simp only [List.length_map]
  have h1 : periodicRow0 (Ends.mapY φ e) :: (interiorRows xs (ys.map φ)).dropLast =
      (periodicRow0 e :: (interiorRows xs ys).dropLast).map (Row.mapRhs φ) := by
    simp only [List.map_cons, periodicRow0_nat φ hφ, interiorRows_nat φ hφ, List.map_dropLast]
  rw [h1]
  have hy0 : (Ends.mapY φ e).y0 = φ e.y0 := rfl
  have d0 : (Ends.mapY φ e).dx0 = e.dx0 := rfl
  have d1 : (Ends.mapY φ e).dxl1 = e.dxl1 := rfl
  have d2 : (Ends.mapY φ e).dxl2 = e.dxl2 := rfl
  have d3 : (Ends.mapY φ e).xl3 = e.xl3 := rfl
  rw [hy0, d0, d1, d2, d3, rhs2Rows_nat φ hφ, thomas_nat φ hφ, thomas_nat φ hφ, periodicRhsLast_nat φ hφ,
    periodicCombine_nat φ hφ]

/-- **naturality of `solve_for_k`**.  The only operation that looks at all lanes at once is the
    periodic equal-ends check; it is assumed to pass on the full rows (it then passes lane-wise). -/
theorem solveForK_nat (xs : List α) (ys : List V) (b : InternalBoundary α)
    (hper : b.specialize = .periodic → ∀ e, getEnds xs ys = .ok e → Lanes.all2 Cmp.eq e.y0 e.yl1 = true) :
    solveForK xs (ys.map φ) b = (solveForK xs ys b).map (List.map φ) := by
  unfold solveForK
  simp only [List.length_map, bind, Except.bind, pure, Except.pure, getEnds_nat φ]
  split
  · rfl
  · cases hge : getEnds xs ys with
    | error err => rfl
    | ok e =>
      simp only [Except.map]
      cases hb : b.specialize with
      | periodic =>
        have hchk := hper hb e hge
        have hchk' : Lanes.all2 Cmp.eq (Ends.mapY φ e).y0 (Ends.mapY φ e).yl1 = true := hφ.all2 _ _ _ hchk
        simp only [hchk, hchk', Bool.not_true, Bool.false_eq_true, if_false]
        split
        · simp [periodic3_nat φ hφ, Except.map]
        · cases rd xs (ys.length - 4) with
          | error err => rfl
          | ok xl4 => simp only [periodicN_nat φ hφ]; rfl
      | mixed left right =>
        simp only []
        split
        · simp [parabolaRows_nat φ hφ, thomas_nat φ hφ, Except.map]
        · rw [firstRow_nat φ hφ, lastRow_nat φ hφ]
          cases firstRow e left.specialize with
          | none => rfl
          | some f =>
            cases lastRow e right.specialize with
            | none => rfl
            | some l =>
              simp only [Option.map_some]
              have : Row.mapRhs φ f :: interiorRows xs (ys.map φ) ++ [Row.mapRhs φ l] =
                  (f :: interiorRows xs ys ++ [l]).map (Row.mapRhs φ) := by
                simp [interiorRows_nat φ hφ]
              rw [this, thomas_nat φ hφ]
      | notAKnot => rfl
      | natural => rfl
      | clamped => rfl

/-- naturality of the evaluation at a point -/
theorem splineEvalAt_nat (a b : List V) (extr : Extrapolate) (xs : List α) (ys : List V) (x : α) :
    splineEvalAt { a := a.map φ, b := b.map φ, extrapolate := extr } xs (ys.map φ) x =
      (splineEvalAt { a := a, b := b, extrapolate := extr } xs ys x).map φ := by
  unfold splineEvalAt
  simp only [bind, Except.bind, pure, Except.pure, rd_map]
  cases lowerIndex xs x with
  | error err => rfl
  | ok i =>
    simp only []
    cases rd xs i with
    | error err => rfl
    | ok xl =>
      cases rd ys i with
      | error err => rfl
      | ok yl =>
        cases rd xs (i + 1) with
        | error err => rfl
        | ok xr =>
          cases rd ys (i + 1) with
          | error err => rfl
          | ok yr =>
            cases rd a i with
            | error err => rfl
            | ok ai =>
              cases rd b i with
              | error err => rfl
              | ok bi => simp only [Except.map, hφ.map4]

/-- **naturality of `CubicSplineStrategy::interp_into`** -/
theorem splineInterp_nat (a b : List V) (extr : Extrapolate) (xs : List α) (ys : List V) (q : α) :
    splineInterp { a := a.map φ, b := b.map φ, extrapolate := extr } xs (ys.map φ) q =
      (splineInterp { a := a, b := b, extrapolate := extr } xs ys q).map φ := by
  unfold splineInterp
  simp only [bind, Except.bind]
  cases isInRange xs q with
  | error err => rfl
  | ok inr =>
    simp only []
    split
    · rfl
    · cases splineWrap extr inr xs q with
      | error err => rfl
      | ok x => exact splineEvalAt_nat φ hφ a b extr xs ys x

end nat

end NdInterp
