/-
Views: writing through a view with injective addressing puts exactly the written values at
the view's logical positions and touches nothing else; the per-element loop over sub-views is
one write of the concatenated rows.
-/
import NdInterp.Model.View
import Mathlib.Data.List.Basic
import Mathlib.Tactic.Ring

namespace NdInterp

variable {α : Type}

theorem writeAddrs_frame (m : Int → α) (as : List Int) (vals : List α) (a : Int) (h : a ∉ as) :
    writeAddrs m as vals a = m a := by
  induction as generalizing m vals with
  | nil => cases vals <;> rfl
  | cons x as ih =>
    cases vals with
    | nil => rfl
    | cons v vs =>
      simp only [writeAddrs]
      rw [ih _ _ (fun hh => h (List.mem_cons_of_mem _ hh))]
      have : a ≠ x := fun e => h (by simp [e])
      simp [this]

theorem writeAddrs_read (m : Int → α) (as : List Int) (vals : List α) (hn : as.Nodup)
    (hl : vals.length = as.length) : as.map (writeAddrs m as vals) = vals := by
  induction as generalizing m vals with
  | nil => cases vals with
    | nil => rfl
    | cons v vs => simp at hl
  | cons x as ih =>
    cases vals with
    | nil => simp at hl
    | cons v vs =>
      have hx : x ∉ as := (List.nodup_cons.mp hn).1
      simp only [writeAddrs, List.map_cons]
      rw [writeAddrs_frame _ _ _ _ hx, ih _ vs (List.nodup_cons.mp hn).2 (by simpa using hl)]
      simp

theorem writeAddrs_append (m : Int → α) (as bs : List Int) (vs ws : List α)
    (hl : vs.length = as.length) :
    writeAddrs m (as ++ bs) (vs ++ ws) = writeAddrs (writeAddrs m as vs) bs ws := by
  induction as generalizing m vs with
  | nil => cases vs with
    | nil => rfl
    | cons v vs => simp at hl
  | cons x as ih =>
    cases vs with
    | nil => simp at hl
    | cons v vs =>
      simp only [List.cons_append, writeAddrs]
      exact ih _ vs (by simpa using hl)

/-- **reading back what was written**: no condition on the strides other than distinct addresses -/
theorem View.read_write (v : View) (m : Int → α) (vals : List α) (hn : v.addrs.Nodup)
    (hl : vals.length = v.addrs.length) : v.read (v.write m vals) = vals :=
  writeAddrs_read m v.addrs vals hn hl

/-- **frame**: memory outside the view is untouched -/
theorem View.write_frame (v : View) (m : Int → α) (vals : List α) (a : Int) (h : a ∉ v.addrs) :
    v.write m vals a = m a :=
  writeAddrs_frame m v.addrs vals a h

theorem indices_length (s : List Nat) : (indices s).length = shapeSize s := by
  induction s with
  | nil => rfl
  | cons d ds ih =>
    simp only [indices, List.length_flatMap, List.length_map, ih]
    have : shapeSize (d :: ds) = d * shapeSize ds := by
      simp only [shapeSize, List.foldl_cons, Nat.one_mul]
      have key : ∀ (l : List Nat) (a : Nat), List.foldl (· * ·) a l = a * List.foldl (· * ·) 1 l := by
        intro l
        induction l with
        | nil => intro a; simp
        | cons x l ihl => intro a; simp only [List.foldl_cons, Nat.one_mul]; rw [ihl (a * x), ihl x]; ring
      exact key ds d
    rw [this]
    have hs : ∀ (l : List Nat) (c : Nat), (List.map (fun _ => c) l).sum = l.length * c := by
      intro l c
      induction l with
      | nil => simp
      | cons x l ihl => simp [ihl, Nat.succ_mul, Nat.add_comm]
    first
      | (rw [hs]; simp)
      | (simp only [Function.comp_def]; rw [hs]; simp)
      | (simp [hs])

theorem View.addrs_length (v : View) : v.addrs.length = shapeSize v.shape := by
  simp [View.addrs, indices_length]

/-- addresses of a view = addresses of its `index_axis(0, i)` sub-views, in order -/
theorem View.addrs_cons (off : Int) (d : Nat) (ds : List Nat) (s : Int) (ss : List Int) :
    (View.mk off (d :: ds) (s :: ss)).addrs =
      (List.range d).flatMap (fun i => ((View.mk off (d :: ds) (s :: ss)).indexAxis0 i).addrs) := by
  simp only [View.addrs, indices, List.map_flatMap, View.indexAxis0, List.headD_cons, List.tail_cons]
  congr 1
  funext i
  simp only [List.map_map]
  congr 1
  funext idx
  simp only [Function.comp, View.addr, dot]
  ring

theorem View.subviewAt_cons (v : View) (i : Nat) (idx : List Nat) :
    v.subviewAt (i :: idx) = (v.indexAxis0 i).subviewAt idx := rfl

theorem View.subviewAt_shape (v : View) (idx : List Nat) :
    (v.subviewAt idx).shape = v.shape.drop idx.length := by
  induction idx generalizing v with
  | nil => rfl
  | cons i idx ih =>
    rw [View.subviewAt_cons, ih]
    simp [View.indexAxis0, List.drop_tail]

/-- a view whose shape starts with the query shape: its addresses are those of the sub-views
    selected by the query multi-indices, in logical order -/
theorem View.addrs_subviews (qshape : List Nat) (v : View)
    (hs : ∃ trailing, v.shape = qshape ++ trailing) (hl : qshape.length ≤ v.strides.length) :
    v.addrs = (indices qshape).flatMap (fun idx => (v.subviewAt idx).addrs) := by
  induction qshape generalizing v with
  | nil => simp [indices, View.subviewAt]
  | cons d ds ih =>
    obtain ⟨trailing, hsh⟩ := hs
    obtain ⟨off, shape, strides⟩ := v
    simp only at hsh hl
    subst hsh
    cases strides with
    | nil => simp at hl
    | cons s ss =>
      have e : d :: ds ++ trailing = d :: (ds ++ trailing) := rfl
      rw [e, View.addrs_cons off d (ds ++ trailing) s ss]
      simp only [indices, List.flatMap_assoc, List.flatMap_map]
      refine List.flatMap_congr ?_
      intro i _
      have := ih ((View.mk off (d :: (ds ++ trailing)) (s :: ss)).indexAxis0 i)
        ⟨trailing, by simp [View.indexAxis0]⟩ (by simpa [View.indexAxis0] using hl)
      rw [this]
      rfl

/-- the per-element loop is one write of the concatenated rows -/
theorem writeRows_eq (buf : View) (m : Int → α) (idxs : List (List Nat)) (rows : List (List α))
    (hlen : rows.length = idxs.length)
    (hrow : ∀ k (h1 : k < idxs.length) (h2 : k < rows.length),
      rows[k].length = (buf.subviewAt idxs[k]).addrs.length) :
    writeRows buf m idxs rows =
      writeAddrs m (idxs.flatMap (fun idx => (buf.subviewAt idx).addrs)) rows.flatten := by
  induction idxs generalizing m rows with
  | nil => cases rows <;> simp [writeRows, writeAddrs]
  | cons idx idxs ih =>
    cases rows with
    | nil => simp at hlen
    | cons row rows =>
      simp only [writeRows, List.flatMap_cons, List.flatten_cons]
      have h0 := hrow 0 (by simp) (by simp)
      simp only [List.getElem_cons_zero] at h0
      rw [writeAddrs_append _ _ _ _ _ h0]
      apply ih
      · simpa using hlen
      · intro k h1 h2
        have := hrow (k + 1) (by simpa using h1) (by simpa using h2)
        simpa using this

end NdInterp
