/-
The scalar instances the driver executes at `Rat` satisfy the laws the theorems assume.
-/
import NdInterp.Lemmas.Lawful
import Mathlib.Algebra.Order.Ring.Rat
import Mathlib.Data.Rat.Floor
import NdInterp.Props.C11

namespace NdInterp

instance : LawfulCmp Rat where
  lt_iff a b := by simp [Cmp.lt]
  le_iff a b := by simp [Cmp.le]
  eq_iff a b := by simp [Cmp.eq]

instance : LawfulToUsize Rat where
  spec x h0 hbig := by
    have hfl : 0 ≤ x.floor := Rat.le_floor_iff.mpr (by simpa using h0)
    refine ⟨x.floor.toNat, ?_, ?_, ?_⟩
    · show (if x ≤ -1 then none else if (18446744073709551616 : Rat) ≤ x then none
        else some x.floor.toNat) = _
      have h1 : ¬ x ≤ -1 := by linarith
      have h2 : ¬ (18446744073709551616 : Rat) ≤ x := by
        have : (2 : Rat) ^ 64 = 18446744073709551616 := by norm_num
        linarith
      simp [h1, h2]
    · have : ((x.floor.toNat : Int) : Rat) = (x.floor : Rat) := by
        rw [Int.toNat_of_nonneg hfl]
      have h2 : ((x.floor.toNat : Nat) : Rat) = (x.floor : Rat) := by exact_mod_cast this
      rw [h2]
      exact Rat.le_floor_iff.mp (le_refl _)
    · have : ((x.floor.toNat : Int) : Rat) = (x.floor : Rat) := by
        rw [Int.toNat_of_nonneg hfl]
      have h2 : ((x.floor.toNat : Nat) : Rat) = (x.floor : Rat) := by exact_mod_cast this
      rw [h2]
      exact Int.lt_floor_add_one x

end NdInterp
