/-
Evaluation of the spline (single lane): coefficient extraction, the Hermite form the code
evaluates, the explicit cubic it equals on every interval and its derivatives, and the
normal form of `CubicSplineStrategy::interp_into` for non-periodic extrapolation modes.
-/
import NdInterp.Lemmas.SplineSys
import NdInterp.Lemmas.LinearCore
import Mathlib.Algebra.Polynomial.Derivative
import Mathlib.Algebra.Polynomial.Eval.Defs
import Mathlib.Algebra.Polynomial.Degree.Lemmas

namespace NdInterp

open Polynomial

variable {F : Type} [Field F]

/-- a cubic in the shifted monomial basis at `x0` -/
structure Cubic (F : Type) where
  x0 : F
  c0 : F
  c1 : F
  c2 : F
  c3 : F

noncomputable def Cubic.toPoly (c : Cubic F) : F[X] :=
  C c.c0 + C c.c1 * (X - C c.x0) + C c.c2 * (X - C c.x0) ^ 2 + C c.c3 * (X - C c.x0) ^ 3

def Cubic.eval (c : Cubic F) (x : F) : F :=
  c.c0 + c.c1 * (x - c.x0) + c.c2 * (x - c.x0) ^ 2 + c.c3 * (x - c.x0) ^ 3
/-- first derivative -/
def Cubic.d1 (c : Cubic F) (x : F) : F := c.c1 + 2 * c.c2 * (x - c.x0) + 3 * c.c3 * (x - c.x0) ^ 2
/-- second derivative -/
def Cubic.d2 (c : Cubic F) (x : F) : F := 2 * c.c2 + 6 * c.c3 * (x - c.x0)
/-- third derivative (constant) -/
def Cubic.d3 (c : Cubic F) : F := 6 * c.c3

theorem Cubic.eval_toPoly (c : Cubic F) (x : F) : c.toPoly.eval x = c.eval x := by
  simp [Cubic.toPoly, Cubic.eval]
theorem Cubic.d1_toPoly (c : Cubic F) (x : F) : (derivative c.toPoly).eval x = c.d1 x := by
  simp [Cubic.toPoly, Cubic.d1, derivative_pow]; ring
theorem Cubic.d2_toPoly (c : Cubic F) (x : F) : (derivative^[2] c.toPoly).eval x = c.d2 x := by
  simp [Cubic.toPoly, Cubic.d2, derivative_pow, Function.iterate_succ]; ring
theorem Cubic.d3_toPoly (c : Cubic F) (x : F) : (derivative^[3] c.toPoly).eval x = c.d3 := by
  simp [Cubic.toPoly, Cubic.d3, derivative_pow, Function.iterate_succ]; ring

theorem Cubic.natDegree_le (c : Cubic F) : c.toPoly.natDegree ≤ 3 := by
  unfold Cubic.toPoly
  have hX : (X - C c.x0 : F[X]).natDegree ≤ 1 := natDegree_X_sub_C_le _
  refine natDegree_add_le_of_degree_le (natDegree_add_le_of_degree_le
    (natDegree_add_le_of_degree_le ?_ ?_) ?_) ?_
  · exact (natDegree_C _).le.trans (by norm_num)
  · exact (natDegree_C_mul_le _ _).trans (hX.trans (by norm_num))
  · exact (natDegree_C_mul_le _ _).trans ((natDegree_pow_le).trans (by
      calc 2 * (X - C c.x0 : F[X]).natDegree ≤ 2 * 1 := Nat.mul_le_mul_left 2 hX
        _ ≤ 3 := by norm_num))
  · exact (natDegree_C_mul_le _ _).trans ((natDegree_pow_le).trans (by
      calc 3 * (X - C c.x0 : F[X]).natDegree ≤ 3 * 1 := Nat.mul_le_mul_left 3 hX
        _ ≤ 3 := by norm_num))

/-- the expression `interp_into` evaluates -/
def hermite (xl xr yl yr a b x : F) : F :=
  let t := (x - xl) / (xr - xl)
  (1 - t) * yl + t * yr + t * (1 - t) * (a * (1 - t) + b * t)

/-- the cubic with values `yl, yr` and slopes `kl, kr` at `xl, xr` -/
def pieceCubic (xl xr yl yr kl kr : F) : Cubic F :=
  let h := xr - xl
  let d := (yr - yl) / h
  ⟨xl, yl, kl, (3 * d - 2 * kl - kr) / h, (kl + kr - 2 * d) / h ^ 2⟩

theorem hermite_eq_cubic (xl xr yl yr kl kr x : F) (h : xr - xl ≠ 0) :
    hermite xl xr yl yr (kl * (xr - xl) - (yr - yl)) ((yr - yl) - kr * (xr - xl)) x
      = (pieceCubic xl xr yl yr kl kr).eval x := by
  unfold hermite pieceCubic Cubic.eval
  simp only
  field_simp
  ring

/-! values and derivatives of a piece at its two ends -/
theorem piece_eval_left (xl xr yl yr kl kr : F) : (pieceCubic xl xr yl yr kl kr).eval xl = yl := by
  simp [pieceCubic, Cubic.eval]
theorem piece_eval_right (xl xr yl yr kl kr : F) (h : xr - xl ≠ 0) :
    (pieceCubic xl xr yl yr kl kr).eval xr = yr := by
  simp only [pieceCubic, Cubic.eval]; field_simp; ring
theorem piece_d1_left (xl xr yl yr kl kr : F) : (pieceCubic xl xr yl yr kl kr).d1 xl = kl := by
  simp [pieceCubic, Cubic.d1]
theorem piece_d1_right (xl xr yl yr kl kr : F) (h : xr - xl ≠ 0) :
    (pieceCubic xl xr yl yr kl kr).d1 xr = kr := by
  simp only [pieceCubic, Cubic.d1]; field_simp; ring
theorem piece_d2_left (xl xr yl yr kl kr : F) (h : xr - xl ≠ 0) :
    (pieceCubic xl xr yl yr kl kr).d2 xl = 2 * (3 * ((yr - yl) / (xr - xl)) - 2 * kl - kr) / (xr - xl) := by
  simp only [pieceCubic, Cubic.d2]; field_simp; ring
theorem piece_d2_right (xl xr yl yr kl kr : F) (h : xr - xl ≠ 0) :
    (pieceCubic xl xr yl yr kl kr).d2 xr = 2 * (kl + 2 * kr - 3 * ((yr - yl) / (xr - xl))) / (xr - xl) := by
  simp only [pieceCubic, Cubic.d2]; field_simp; ring

/-- `coeffs` by index -/
theorem coeffs_get (xs ys ks : List F) (hy : ys.length = xs.length) (hk : ks.length = xs.length)
    (i : Nat) (hi : i + 1 < xs.length) :
    (coeffs xs ys ks)[i]? =
      some (ks[i]'(by omega) * (xs[i + 1] - xs[i]'(by omega)) - (ys[i + 1]'(by omega) - ys[i]'(by omega)),
            (ys[i + 1]'(by omega) - ys[i]'(by omega)) - ks[i + 1]'(by omega) * (xs[i + 1] - xs[i]'(by omega))) := by
  induction xs generalizing ys ks i with
  | nil => simp at hi
  | cons x0 xs ih =>
    match xs, ys, ks, hy, hk with
    | [], _, _, _, _ => simp at hi
    | x1 :: xs', y0 :: y1 :: ys', k0 :: k1 :: ks', hy, hk =>
      cases i with
      | zero => simp [coeffs]
      | succ i =>
        simp only [coeffs, List.getElem?_cons_succ]
        rw [ih (y1 :: ys') (k1 :: ks') (by simpa using hy) (by simpa using hk) i (by simpa using hi)]
        simp

@[simp] theorem extr_beq (a b : Extrapolate) : (a == b) = decide (a = b) := by
  cases a <;> cases b <;> rfl

/-- the strategy object built from slopes `ks` -/
def splineOf (xs ys ks : List F) (extr : Extrapolate) : SplineStrat F :=
  { a := (coeffs xs ys ks).map (·.1), b := (coeffs xs ys ks).map (·.2), extrapolate := extr }

/-- piece `i` of the spline with slopes `ks` -/
def pieceAt (xs ys ks : List F) (i : Nat) (hi : i + 1 < xs.length) (hy : ys.length = xs.length)
    (hk : ks.length = xs.length) : Cubic F :=
  pieceCubic (xs[i]'(by omega)) xs[i + 1] (ys[i]'(by omega)) (ys[i + 1]'(by omega))
    (ks[i]'(by omega)) (ks[i + 1]'(by omega))

section order
variable [LinearOrder F] [IsStrictOrderedRing F] [Cmp F] [LawfulCmp F] [ToUsize F] [LawfulToUsize F]
  [RemEuclid F]

/-- evaluation at a point: the value of the cubic piece of its bracketing interval -/
theorem splineEvalAt_eq (xs ys ks : List F) (x : F) (extr : Extrapolate)
    (hs : StrictInc xs) (hy : ys.length = xs.length) (hk : ks.length = xs.length)
    (hlen : xs.length < 2 ^ 64) :
    ∃ i, ∃ (hb : Bracket xs x i),
      splineEvalAt (V := F) (splineOf xs ys ks extr) xs ys x =
        .ok ((pieceAt xs ys ks i hb.lt_len hy hk).eval x) := by
  obtain ⟨i, hi, hb⟩ := C11_exact xs x hs hlen
  refine ⟨i, hb, ?_⟩
  have hlt := hb.lt_len
  have hd : xs[i + 1] - xs[i] ≠ 0 := ne_of_gt (sub_pos.mpr (hs.2 i (i + 1) (by omega) hlt))
  have hc := coeffs_get xs ys ks hy hk i hlt
  have ha : rd ((coeffs xs ys ks).map (·.1)) i = .ok (ks[i] * (xs[i + 1] - xs[i]) - (ys[i + 1] - ys[i])) := by
    simp [rd, List.getElem?_map, hc]
  have hbb : rd ((coeffs xs ys ks).map (·.2)) i = .ok ((ys[i + 1] - ys[i]) - ks[i + 1] * (xs[i + 1] - xs[i])) := by
    simp [rd, List.getElem?_map, hc]
  have key : (1 - (x - xs[i]) / (xs[i + 1] - xs[i])) * ys[i] + (x - xs[i]) / (xs[i + 1] - xs[i]) * ys[i + 1] +
      (x - xs[i]) / (xs[i + 1] - xs[i]) * (1 - (x - xs[i]) / (xs[i + 1] - xs[i])) *
        ((ks[i] * (xs[i + 1] - xs[i]) - (ys[i + 1] - ys[i])) * (1 - (x - xs[i]) / (xs[i + 1] - xs[i])) +
          (ys[i + 1] - ys[i] - ks[i + 1] * (xs[i + 1] - xs[i])) * ((x - xs[i]) / (xs[i + 1] - xs[i]))) =
      (pieceAt xs ys ks i hlt hy hk).eval x := by
    simp only [pieceAt]
    rw [← hermite_eq_cubic _ _ _ _ _ _ _ hd]
    simp [hermite]
  unfold splineEvalAt
  simp only [splineOf, bind, Except.bind, pure, Except.pure, hi, rd_eq xs i (by omega),
    rd_eq xs (i + 1) hlt, rd_eq ys i (by omega), rd_eq ys (i + 1) (by omega), ha, hbb]
  simp
  exact key

/-- **normal form of `CubicSplineStrategy::interp_into`** (modes `No` / `Yes`): the value of the
    cubic piece of the bracketing interval, or `OutOfBounds`. -/
theorem splineInterp_eq (xs ys ks : List F) (q : F) (extr : Extrapolate) (hne : extr ≠ .periodic)
    (hs : StrictInc xs) (hy : ys.length = xs.length) (hk : ks.length = xs.length)
    (hlen : xs.length < 2 ^ 64) :
    ∃ i, ∃ (hb : Bracket xs q i),
      splineInterp (V := F) (splineOf xs ys ks extr) xs ys q =
        if extr = .yes ∨ InRange xs q then .ok ((pieceAt xs ys ks i hb.lt_len hy hk).eval q)
        else .error .outOfBounds := by
  obtain ⟨i, hb, he⟩ := splineEvalAt_eq xs ys ks q extr hs hy hk hlen
  have h0 : 0 < xs.length := by have := hs.1; omega
  refine ⟨i, hb, ?_⟩
  unfold splineInterp
  rw [isInRange_eq xs q h0]
  cases extr with
  | periodic => exact absurd rfl hne
  | yes =>
    have hw : ∀ b, splineWrap Extrapolate.yes b xs q = .ok q := by intro b; simp [splineWrap]; rfl
    simp only [splineOf, bind, Except.bind, pure, Except.pure, hw] at he ⊢
    simp [he]
  | no =>
    have hw : ∀ b, splineWrap Extrapolate.no b xs q = .ok q := by intro b; simp [splineWrap]; rfl
    by_cases hin : InRange xs q
    · simp only [splineOf, bind, Except.bind, pure, Except.pure, hw] at he ⊢
      simp [he, hin]
    · simp [splineOf, bind, Except.bind, hin, throw, throwThe, MonadExceptOf.throw]

end order

end NdInterp
