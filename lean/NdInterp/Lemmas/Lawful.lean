/-
Laws tying the model's Boolean comparison / cast operations to order structure.
The property theorems are stated for any scalar type satisfying these laws; instances are
proved for `Rat` *with the very `Cmp`/`ToUsize`/`RemEuclid` instances the driver executes*.
-/
import NdInterp.Model.Basic
import NdInterp.Model.Instances
import Mathlib.Order.Defs.LinearOrder

namespace NdInterp

/-- the Boolean comparisons decide a linear order (no NaN) -/
class LawfulCmp (α : Type) [LinearOrder α] [Cmp α] : Prop where
  lt_iff : ∀ a b : α, Cmp.lt a b = true ↔ a < b
  le_iff : ∀ a b : α, Cmp.le a b = true ↔ a ≤ b
  eq_iff : ∀ a b : α, Cmp.eq a b = true ↔ a = b

section
variable {α : Type} [LinearOrder α] [Cmp α] [LawfulCmp α]

@[simp] theorem cmp_lt (a b : α) : Cmp.lt a b = true ↔ a < b := LawfulCmp.lt_iff a b
@[simp] theorem cmp_le (a b : α) : Cmp.le a b = true ↔ a ≤ b := LawfulCmp.le_iff a b
@[simp] theorem cmp_eq (a b : α) : Cmp.eq a b = true ↔ a = b := LawfulCmp.eq_iff a b
@[simp] theorem cmp_gt (a b : α) : Cmp.gt a b = true ↔ b < a := LawfulCmp.lt_iff b a
@[simp] theorem cmp_ge (a b : α) : Cmp.ge a b = true ↔ b ≤ a := LawfulCmp.le_iff b a
@[simp] theorem cmp_lt_false (a b : α) : Cmp.lt a b = false ↔ b ≤ a := by
  rw [← not_lt, ← cmp_lt a b, Bool.not_eq_true]
@[simp] theorem cmp_le_false (a b : α) : Cmp.le a b = false ↔ b < a := by
  rw [← not_le, ← cmp_le a b, Bool.not_eq_true]
@[simp] theorem cmp_eq_false (a b : α) : Cmp.eq a b = false ↔ a ≠ b := by
  rw [Ne, ← cmp_eq a b, Bool.not_eq_true]
@[simp] theorem cmp_gt_false (a b : α) : Cmp.gt a b = false ↔ a ≤ b := cmp_lt_false b a
@[simp] theorem cmp_ge_false (a b : α) : Cmp.ge a b = false ↔ a < b := cmp_le_false b a
end

end NdInterp
