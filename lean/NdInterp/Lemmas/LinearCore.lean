/-
Structure of `Linear::interp_into` / `Bilinear::interp_into` on a valid interpolator:
the range gate, the lookup (never a panic, C11) and the reads are resolved once here; the
property files C01, C04, C05, C06, C20 read their statements off these normal forms.
-/
import NdInterp.Model.Linear
import NdInterp.Props.C11

namespace NdInterp

/-- on a strictly increasing axis the index the property text demands is unique -/
theorem Bracket.unique {α : Type} [LinearOrder α] {xs : List α} {q : α} {i j : Nat}
    (hs : StrictInc xs) (h1 : Bracket xs q i) (h2 : Bracket xs q j) : i = j := by
  have h0 : 0 < xs.length := by have := hs.1; omega
  by_cases c1 : q ≤ xs[0]
  · rw [h1.low h0 c1, h2.low h0 c1]
  · by_cases c2 : xs[xs.length - 1] ≤ q
    · rw [h1.high h0 c2, h2.high h0 c2]
    · exact C11_unique xs q hs i j h1.lt_len h2.lt_len
        (h1.inside h0 (not_le.mp c1) (not_le.mp c2)) (h2.inside h0 (not_le.mp c1) (not_le.mp c2))

/-- an in-range query lies in the closed bracketing interval -/
theorem Bracket.between' {α : Type} [LinearOrder α] {xs : List α} {q : α} {i : Nat}
    (hb : Bracket xs q i) (hs : StrictInc xs)
    (hin : ∃ (h : 0 < xs.length), xs[0] ≤ q ∧ q ≤ xs[xs.length - 1]) :
    xs[i]'(by have := hb.lt_len; omega) ≤ q ∧ q ≤ xs[i + 1]'hb.lt_len := by
  obtain ⟨h0, hlo, hhi⟩ := hin
  have hn := hs.1
  by_cases c1 : q ≤ xs[0]
  · have hi := hb.low h0 c1
    subst hi
    exact ⟨hlo, le_trans c1 (le_of_lt (hs.2 0 1 (by omega) (by omega)))⟩
  · by_cases c2 : xs[xs.length - 1] ≤ q
    · have hi := hb.high h0 c2
      subst hi
      constructor
      · exact le_trans (le_of_lt (hs.2 (xs.length - 2) (xs.length - 1) (by omega) (by omega))) c2
      · refine le_trans hhi (le_of_eq ?_); congr 1; omega
    · have := hb.inside h0 (not_le.mp c1) (not_le.mp c2)
      exact ⟨this.1, le_of_lt this.2⟩

/-- moving knots other than the two bracketing ones (keeping the axis strictly increasing)
    does not change the bracket of `q` -/
theorem Bracket.transfer {α : Type} [LinearOrder α] {xs xs' : List α} {q : α} {i : Nat}
    (hs : StrictInc xs) (hs' : StrictInc xs') (hlen : xs'.length = xs.length)
    (hb : Bracket xs q i)
    (e1 : xs'[i]'(by have := hb.lt_len; omega) = xs[i]'(by have := hb.lt_len; omega))
    (e2 : xs'[i + 1]'(by have := hb.lt_len; omega) = xs[i + 1]'hb.lt_len) :
    Bracket xs' q i := by
  have hn := hs.1
  have hil := hb.lt_len
  have h0 : 0 < xs.length := by omega
  have h0' : 0 < xs'.length := by omega
  -- position of q relative to the bracketing knots of xs
  have key : (q ≤ xs[0] ∧ i = 0) ∨ (xs[xs.length - 1] ≤ q ∧ i = xs.length - 2) ∨
      (xs[i] ≤ q ∧ q < xs[i + 1]) := by
    by_cases c1 : q ≤ xs[0]
    · exact Or.inl ⟨c1, hb.low h0 c1⟩
    · by_cases c2 : xs[xs.length - 1] ≤ q
      · exact Or.inr (Or.inl ⟨c2, hb.high h0 c2⟩)
      · exact Or.inr (Or.inr (hb.inside h0 (not_le.mp c1) (not_le.mp c2)))
  refine ⟨by omega, ?_, ?_, ?_⟩
  · intro _ hq
    by_contra hne
    have hpos : 0 < i := by omega
    have lt0 : xs'[0] < xs'[i] := hs'.2 0 i hpos (by omega)
    rcases key with ⟨_, hi0⟩ | ⟨hq2, hi2⟩ | ⟨hq3, _⟩
    · exact hne hi0
    · have : xs[i] < xs[xs.length - 1] := hs.2 i (xs.length - 1) (by omega) (by omega)
      rw [e1] at lt0
      exact absurd (lt_of_lt_of_le (lt_trans lt0 this) hq2) (not_lt.mpr hq)
    · rw [e1] at lt0
      exact absurd (lt_of_lt_of_le lt0 hq3) (not_lt.mpr hq)
  · intro _ hq
    by_contra hne
    have hlt : i + 1 < xs'.length - 1 := by omega
    have ltl : xs'[i + 1] < xs'[xs'.length - 1] := hs'.2 (i + 1) (xs'.length - 1) hlt (by omega)
    rcases key with ⟨hq1, hi0⟩ | ⟨_, hi2⟩ | ⟨_, hq3⟩
    · have : xs[0] < xs[i + 1] := hs.2 0 (i + 1) (by omega) hil
      have hq' : q < xs[i + 1] := lt_of_le_of_lt hq1 this
      rw [e2] at ltl
      exact absurd (lt_trans hq' ltl) (not_lt.mpr hq)
    · exact hne (by omega)
    · rw [e2] at ltl
      exact absurd (lt_trans hq3 ltl) (not_lt.mpr hq)
  · intro _ hq1 hq2
    rcases key with ⟨hq, hi0⟩ | ⟨hq, hi2⟩ | ⟨hq3, hq4⟩
    · subst hi0
      rw [e1] at hq1
      exact absurd hq1 (not_lt.mpr hq)
    · have : xs'[xs'.length - 1] = xs[xs.length - 1] := by
        have h1 : xs'.length - 1 = i + 1 := by omega
        have h2 : xs.length - 1 = i + 1 := by omega
        simp only [h1, h2, e2]
      rw [this] at hq2
      exact absurd hq2 (not_lt.mpr hq)
    · rw [e1, e2]; exact ⟨hq3, hq4⟩

/-- a knot is one of the two ends of its own bracket -/
theorem knot_bracket {α : Type} [LinearOrder α] {xs : List α} {a i : Nat} (hs : StrictInc xs) (ha : a < xs.length)
    (hb : Bracket xs xs[a] i) : a = i ∨ a = i + 1 := by
  have hn := hs.1
  have hin : ∃ (h : 0 < xs.length), xs[0] ≤ xs[a] ∧ xs[a] ≤ xs[xs.length - 1] :=
    ⟨by omega, hs.le_of_le (Nat.zero_le a) ha, hs.le_of_le (by omega) (by omega)⟩
  have hlt := hb.lt_len
  obtain ⟨b1, b2⟩ := hb.between' hs hin
  by_contra hcon
  simp only [not_or] at hcon
  rcases Nat.lt_or_ge a i with h1 | h1
  · exact absurd b1 (not_le.mpr (hs.2 a i h1 (by omega)))
  · have : i + 1 < a := by omega
    exact absurd b2 (not_le.mpr (hs.2 (i + 1) a this ha))

theorem rd_eq {β : Type} (l : List β) (i : Nat) (h : i < l.length) : rd l i = .ok l[i] := by
  simp [rd, h]

section
variable {α V : Type} [Field α] [LinearOrder α] [IsStrictOrderedRing α]
  [Cmp α] [LawfulCmp α] [ToUsize α] [LawfulToUsize α] [Lanes α V]

/-- the closed-range test of the property text -/
def InRange (xs : List α) (q : α) : Prop :=
  ∃ (h : 0 < xs.length), xs[0] ≤ q ∧ q ≤ xs[xs.length - 1]

instance (xs : List α) (q : α) : Decidable (InRange xs q) := by
  unfold InRange; infer_instance

omit [IsStrictOrderedRing α] [ToUsize α] [LawfulToUsize α] in
theorem isInRange_eq (xs : List α) (q : α) (h0 : 0 < xs.length) :
    isInRange xs q = .ok (decide (InRange xs q)) := by
  have hlast : xs.length - 1 < xs.length := by omega
  unfold isInRange InRange
  simp only [List.getElem?_eq_getElem h0, List.getElem?_eq_getElem hlast]
  by_cases c1 : xs[0] ≤ q
  · have : Cmp.le xs[0] q = true := (cmp_le _ _).mpr c1
    simp only [this, if_true]
    by_cases c2 : q ≤ xs[xs.length - 1]
    · have h2 : Cmp.le q xs[xs.length - 1] = true := (cmp_le _ _).mpr c2
      simp [h2, c1, c2, h0]
    · have h2 : Cmp.le q xs[xs.length - 1] = false := (cmp_le_false _ _).mpr (not_le.mp c2)
      simp [h2, c2]
  · have : Cmp.le xs[0] q = false := (cmp_le_false _ _).mpr (not_le.mp c1)
    simp [this, c1]

omit [IsStrictOrderedRing α] [ToUsize α] [LawfulToUsize α] in
/-- the range gate: passes iff extrapolating or in the closed range; otherwise `OutOfBounds` -/
theorem rangeGate_eq (ext : Bool) (xs : List α) (q : α) (h0 : 0 < xs.length) :
    rangeGate ext xs q = if ext = true ∨ InRange xs q then .ok () else .error .outOfBounds := by
  unfold rangeGate
  cases ext with
  | true => simp
  | false =>
    rw [isInRange_eq xs q h0]
    by_cases c : InRange xs q <;> simp [c]

/-- **normal form of `Linear::interp_into`** on a valid interpolator -/
theorem linearInterp_eq (ext : Bool) (xs : List α) (ys : List V) (q : α)
    (hs : StrictInc xs) (hl : ys.length = xs.length) (hlen : xs.length < 2 ^ 64) :
    ∃ i, ∃ (hb : Bracket xs q i),
      linearInterp ext xs ys q =
        if ext = true ∨ InRange xs q then
          .ok (Lanes.map2 (fun y1 y2 =>
            calcFrac (xs[i]'(by have := hb.lt_len; omega)) y1 (xs[i + 1]'hb.lt_len) y2 q)
            (ys[i]'(by have := hb.lt_len; omega)) (ys[i + 1]'(by have := hb.lt_len; omega)))
        else .error .outOfBounds := by
  obtain ⟨i, hi, hb⟩ := C11_exact xs q hs hlen
  have h0 : 0 < xs.length := by have := hs.1; omega
  refine ⟨i, hb, ?_⟩
  have hlt := hb.lt_len
  unfold linearInterp
  rw [rangeGate_eq ext xs q h0]
  split
  · simp only [hi, rd_eq xs i (by omega), rd_eq xs (i + 1) hlt, rd_eq ys i (by omega),
      rd_eq ys (i + 1) (by omega), bind, Except.bind, pure, Except.pure]
  · rfl

/-- a well-formed grid: `nx` rows of `ny` lane-rows -/
def GridOK {W : Type} (zs : List (List W)) (nx ny : Nat) : Prop :=
  zs.length = nx ∧ ∀ r ∈ zs, r.length = ny

omit [Field α] [LinearOrder α] [IsStrictOrderedRing α] [Cmp α] [LawfulCmp α] [ToUsize α]
  [LawfulToUsize α] [Lanes α V] in
theorem GridOK.get {W : Type} {zs : List (List W)} {nx ny : Nat} (h : GridOK zs nx ny) (i j : Nat)
    (hi : i < nx) (hj : j < ny) : ∃ r z, zs[i]? = some r ∧ r[j]? = some z := by
  have hi' : i < zs.length := by rw [h.1]; exact hi
  refine ⟨zs[i], (zs[i])[j]'(by rw [h.2 _ (List.getElem_mem hi')]; exact hj), ?_, ?_⟩
  · simp [hi']
  · simp

omit [Field α] [LinearOrder α] [IsStrictOrderedRing α] [Cmp α] [LawfulCmp α] [ToUsize α]
  [LawfulToUsize α] [Lanes α V] in
theorem rd_of_some {β : Type} (l : List β) (i : Nat) (v : β) (h : l[i]? = some v) : rd l i = .ok v := by
  simp [rd, h]

/-- **normal form of `Bilinear::interp_into`** on a valid interpolator -/
theorem bilinearInterp_eq (ext : Bool) (xs ys : List α) (zs : List (List V)) (x y : α)
    (hsx : StrictInc xs) (hsy : StrictInc ys) (hg : GridOK zs xs.length ys.length)
    (hlx : xs.length < 2 ^ 64) (hly : ys.length < 2 ^ 64) :
    ∃ i j, ∃ (hi : Bracket xs x i) (hj : Bracket ys y j), ∃ r1 r2 z11 z12 z21 z22,
      zs[i]? = some r1 ∧ zs[i + 1]? = some r2 ∧
      r1[j]? = some z11 ∧ r1[j + 1]? = some z12 ∧ r2[j]? = some z21 ∧ r2[j + 1]? = some z22 ∧
      bilinearInterp ext xs ys zs x y =
        if ext = true ∨ InRange xs x then
          if ext = true ∨ InRange ys y then
            .ok (Lanes.map4 (fun z11 z12 z21 z22 =>
              let z1 := calcFrac (xs[i]'(by have := hi.lt_len; omega)) z11 (xs[i + 1]'hi.lt_len) z21 x
              let z2 := calcFrac (xs[i]'(by have := hi.lt_len; omega)) z12 (xs[i + 1]'hi.lt_len) z22 x
              calcFrac (ys[j]'(by have := hj.lt_len; omega)) z1 (ys[j + 1]'hj.lt_len) z2 y)
              z11 z12 z21 z22)
          else .error .outOfBounds
        else .error .outOfBounds := by
  obtain ⟨i, hie, hi⟩ := C11_exact xs x hsx hlx
  obtain ⟨j, hje, hj⟩ := C11_exact ys y hsy hly
  have h0x : 0 < xs.length := by have := hsx.1; omega
  have h0y : 0 < ys.length := by have := hsy.1; omega
  have hil := hi.lt_len
  have hjl := hj.lt_len
  obtain ⟨r1, z11, e1, e11⟩ := hg.get i j (by omega) (by omega)
  obtain ⟨r1', z12, e1', e12⟩ := hg.get i (j + 1) (by omega) hjl
  obtain ⟨r2, z21, e2, e21⟩ := hg.get (i + 1) j hil (by omega)
  obtain ⟨r2', z22, e2', e22⟩ := hg.get (i + 1) (j + 1) hil hjl
  have : r1' = r1 := by rw [e1] at e1'; exact (Option.some.inj e1').symm
  subst this
  have : r2' = r2 := by rw [e2] at e2'; exact (Option.some.inj e2').symm
  subst this
  refine ⟨i, j, hi, hj, r1', r2', z11, z12, z21, z22, e1, e2, e11, e12, e21, e22, ?_⟩
  unfold bilinearInterp
  rw [rangeGate_eq ext xs x h0x, rangeGate_eq ext ys y h0y]
  split
  · split
    · simp only [hie, hje, rd_eq xs i (by omega), rd_eq xs (i + 1) hil, rd_eq ys j (by omega),
        rd_eq ys (j + 1) hjl, rd_of_some _ _ _ e1, rd_of_some _ _ _ e2, rd_of_some _ _ _ e11,
        rd_of_some _ _ _ e12, rd_of_some _ _ _ e21, rd_of_some _ _ _ e22,
        bind, Except.bind, pure, Except.pure]
    · rfl
  · rfl

end

end NdInterp
