/-
The periodic spline (`len ≥ 4`, single lane): the condensed system of `solve_for_k`'s periodic
branch — two Thomas solves on the same matrix and the closing equation for `k[len-2]` — yields
slopes that satisfy the cyclic tridiagonal system: C² at every interior knot, `k[len-1] = k[0]`
and equal second derivatives at the two ends.  The closing denominator is positive
(`periodic_den_pos`, via the max-norm bound `|k2ᵢ| ≤ 1`).
-/
import NdInterp.Lemmas.ThomasBound
import NdInterp.Lemmas.SplineChar

namespace NdInterp

variable {F : Type} [Field F] [LinearOrder F] [IsStrictOrderedRing F]

/-! ### `rhs2Rows` by index -/

theorem rhs2Rows_go_length (like b : F) (l : List (Row F F)) : (rhs2Rows.go like b l).length = l.length := by
  induction l with
  | nil => rfl
  | cons r rest ih =>
    cases rest with
    | nil => rfl
    | cons r2 rest' => simp only [rhs2Rows.go, List.length_cons] at ih ⊢; rw [ih]

theorem rhs2Rows_go_get (like b : F) (l : List (Row F F)) (j : Nat) (hj : j < l.length) :
    (rhs2Rows.go like b l)[j]? =
      some { lo := l[j].lo, mid := l[j].mid, up := l[j].up, rhs := if j + 1 = l.length then b else 0 } := by
  induction l generalizing j with
  | nil => simp at hj
  | cons r rest ih =>
    cases rest with
    | nil =>
      have : j = 0 := by simpa using hj
      subst this
      simp [rhs2Rows.go]
    | cons r2 rest' =>
      cases j with
      | zero => simp [rhs2Rows.go]
      | succ j =>
        simp only [rhs2Rows.go, List.getElem?_cons_succ, List.getElem_cons_succ]
        rw [ih j (by simpa using hj)]
        simp

theorem rhs2Rows_length (like a b : F) (l : List (Row F F)) : (rhs2Rows like a b l).length = l.length := by
  cases l with
  | nil => rfl
  | cons r rest =>
    cases rest with
    | nil => rfl
    | cons r2 rest' => simp [rhs2Rows, rhs2Rows_go_length]

theorem rhs2Rows_get (like a b : F) (l : List (Row F F)) (hl : 2 ≤ l.length) (i : Nat) (hi : i < l.length) :
    (rhs2Rows like a b l)[i]? =
      some { lo := l[i].lo, mid := l[i].mid, up := l[i].up
             rhs := if i = 0 then a else if i + 1 = l.length then b else 0 } := by
  match l, hl with
  | r :: r2 :: rest, _ =>
    cases i with
    | zero => simp [rhs2Rows]
    | succ j =>
      simp only [rhs2Rows, List.getElem?_cons_succ, List.getElem_cons_succ]
      rw [rhs2Rows_go_get like b (r2 :: rest) j (by simpa using hi)]
      simp

theorem rhs2Rows_go_dom (like b : F) (l : List (Row F F)) (hd : ∀ r ∈ l, Dom r) :
    ∀ r ∈ rhs2Rows.go like b l, Dom r := by
  induction l with
  | nil => simp [rhs2Rows.go]
  | cons r rest ih =>
    cases rest with
    | nil =>
      intro r' hr'
      simp only [rhs2Rows.go, List.mem_singleton] at hr'
      subst hr'
      exact hd r (by simp)
    | cons r2 rest' =>
      intro r' hr'
      simp only [rhs2Rows.go, List.mem_cons] at hr'
      rcases hr' with rfl | hr'
      · exact hd r (by simp)
      · exact ih (fun x hx => hd x (by simp [hx])) r' (by simpa [rhs2Rows.go] using hr')

theorem rhs2Rows_go_bound (like b : F) (l : List (Row F F)) (hd : ∀ r ∈ l, Dom r)
    (hb : ∀ r, l.getLast? = some r → |b| ≤ r.mid - r.lo - r.up) :
    ∀ r ∈ rhs2Rows.go like b l, Dom r ∧ |r.rhs| ≤ 1 * (r.mid - r.lo - r.up) := by
  induction l with
  | nil => simp [rhs2Rows.go]
  | cons r rest ih =>
    cases rest with
    | nil =>
      intro r' hr'
      simp only [rhs2Rows.go, List.mem_singleton] at hr'
      subst hr'
      refine ⟨hd r (by simp), ?_⟩
      simpa using hb r (by simp)
    | cons r2 rest' =>
      intro r' hr'
      simp only [rhs2Rows.go, List.mem_cons] at hr'
      rcases hr' with rfl | hr'
      · have hdr := hd r (by simp)
        refine ⟨hdr, ?_⟩
        simp only [const_scalar, c0_eq, abs_zero, one_mul]
        have := hdr.2.2
        linarith
      · exact ih (fun x hx => hd x (by simp [hx]))
          (fun x hx => hb x (by rw [List.getLast?_cons_cons]; exact hx)) r' (by simpa [rhs2Rows.go] using hr')

theorem append2_getD (head : List F) (κ k0 : F) :
    (∀ i, i < head.length → (head ++ [κ, k0]).getD i 0 = head.getD i 0) ∧
    (head ++ [κ, k0]).getD head.length 0 = κ ∧ (head ++ [κ, k0]).getD (head.length + 1) 0 = k0 := by
  refine ⟨?_, ?_, ?_⟩
  · intro i hi
    simp [List.getD_eq_getElem?_getD, List.getElem?_append_left hi]
  · simp [List.getD_eq_getElem?_getD]
  · simp [List.getD_eq_getElem?_getD, List.getElem?_append_right]

theorem zipWith_getD (g : F → F → F) (a b : List F) (i : Nat) (ha : i < a.length) (hb : i < b.length) :
    (List.zipWith g a b).getD i 0 = g (a.getD i 0) (b.getD i 0) := by
  simp [List.getD_eq_getElem?_getD, List.getElem?_zipWith, List.getElem?_eq_getElem ha,
    List.getElem?_eq_getElem hb]

/-! ### pivots of a sweep over dominant rows -/

theorem sweep_dom (rows : List (Row F F)) (pm pu pr : F) (h : SweepInv pm pu) (hd : ∀ r ∈ rows, Dom r) :
    ∀ e ∈ fwd pm pu pr rows, 0 ≤ e.up ∧ e.up < e.mid := by
  induction rows generalizing pm pu pr with
  | nil => simp [fwd]
  | cons r rest ih =>
    have ⟨hlo, hup, hmid⟩ := hd r (by simp)
    have hpm : 0 < pm := lt_of_le_of_lt h.1 h.2
    have key : r.lo / pm * pu ≤ r.lo := by
      have : pu / pm ≤ 1 := by rw [div_le_one hpm]; exact h.2.le
      calc r.lo / pm * pu = r.lo * (pu / pm) := by ring
        _ ≤ r.lo * 1 := by gcongr
        _ = r.lo := by ring
    intro e he
    simp only [fwd, map2_scalar, List.mem_cons] at he
    rcases he with rfl | he
    · exact ⟨hup, by simp only; linarith⟩
    · exact ih _ _ _ ⟨hup, by linarith⟩ (fun r hr => hd r (by simp [hr])) e he

theorem pivPos_of_mem : ∀ (es : List (ERow F F)), (∀ e ∈ es, 0 < e.mid) → PivPos es
  | [], _ => trivial
  | e :: es, h => ⟨h e (by simp), pivPos_of_mem es (fun e' he' => h e' (by simp [he']))⟩

/-- a first row with `0 ≤ up < mid` followed by dominant rows: all pivots positive -/
theorem pivPos_dom (r0 : Row F F) (rows : List (Row F F)) (h0 : SweepInv r0.mid r0.up)
    (hd : ∀ r ∈ rows, Dom r) : PivPos (fwdAll (r0 :: rows)) := by
  apply pivPos_of_mem
  intro e he
  simp only [fwdAll, List.mem_cons] at he
  rcases he with rfl | he
  · exact lt_of_le_of_lt h0.1 h0.2
  · have := sweep_dom rows r0.mid r0.up r0.rhs h0 hd e he
    exact lt_of_le_of_lt this.1 this.2

theorem rd_getD (l : List F) (i : Nat) (h : i < l.length) : rd l i = .ok (l.getD i 0) := by
  simp [rd, List.getD_eq_getElem?_getD, List.getElem?_eq_getElem h]

/-- closed form of `periodicCombine` on single-lane data -/
theorem periodicCombine_ok (dx1 dx2 r : F) (len : Nat) (k1 k2 : List F)
    (h1 : k1.length = len - 2) (h2 : k2.length = len - 2) (hlen : 4 ≤ len) :
    periodicCombine dx1 dx2 len r k1 k2 =
      .ok (List.zipWith (fun a b => a +
              (r - k1.getD 0 0 * dx2 - k1.getD (len - 3) 0 * dx1) /
                (k2.getD 0 0 * dx2 + k2.getD (len - 3) 0 * dx1 + 2 * (dx1 + dx2)) * b) k1 k2 ++
            [(r - k1.getD 0 0 * dx2 - k1.getD (len - 3) 0 * dx1) /
                (k2.getD 0 0 * dx2 + k2.getD (len - 3) 0 * dx1 + 2 * (dx1 + dx2)),
             k1.getD 0 0 + (r - k1.getD 0 0 * dx2 - k1.getD (len - 3) 0 * dx1) /
                (k2.getD 0 0 * dx2 + k2.getD (len - 3) 0 * dx1 + 2 * (dx1 + dx2)) * k2.getD 0 0]) := by
  unfold periodicCombine
  have z : (List.zipWith (fun a b => a +
      (r - k1.getD 0 0 * dx2 - k1.getD (len - 3) 0 * dx1) /
        (k2.getD 0 0 * dx2 + k2.getD (len - 3) 0 * dx1 + 2 * (dx1 + dx2)) * b) k1 k2).length = len - 2 := by
    simp [h1, h2]
  simp only [bind, Except.bind, pure, Except.pure, rd_getD k1 0 (by omega), rd_getD k1 (len - 3) (by omega),
    rd_getD k2 0 (by omega), rd_getD k2 (len - 3) (by omega), map1_scalar, map2_scalar, c2_eq]
  rw [rd_getD _ 0 (by omega), zipWith_getD _ _ _ 0 (by omega) (by omega)]

/-! ### the condensed periodic system -/

section periodic
variable (xs ys : List F) (hy : ys.length = xs.length) (hn : 4 ≤ xs.length)

/-- the matrix rows shared by both Thomas solves -/
def perRows1 : List (Row F F) :=
  periodicRow0 (endsOf xs ys hy (by omega)) :: (interiorRows xs ys).dropLast

def perRows2 : List (Row F F) :=
  rhs2Rows (endsOf xs ys hy (by omega)).y0 (-(endsOf xs ys hy (by omega)).dx0)
    (-((endsOf xs ys hy (by omega)).xl3 - xs[xs.length - 4])) (perRows1 xs ys hy hn)

theorem perRows1_length : (perRows1 xs ys hy hn).length = xs.length - 2 := by
  simp [perRows1, interiorRows_length xs ys hy]; omega

theorem perRows1_get_succ (i : Nat) (hi : i + 3 < xs.length) :
    (perRows1 xs ys hy hn)[i + 1]? =
      some (interiorRow (xs[i]'(by omega)) (xs[i + 1]'(by omega)) (xs[i + 2]'(by omega))
        (ys[i]'(by omega)) (ys[i + 1]'(by omega)) (ys[i + 2]'(by omega))) := by
  simp only [perRows1, List.getElem?_cons_succ]
  have hl := interiorRows_length xs ys hy
  rw [List.getElem?_dropLast, if_pos (by omega)]
  exact interiorRows_get xs ys hy i (by omega)

variable (hs : StrictInc xs)
include hs

theorem perRows1_pivPos : PivPos (fwdAll (perRows1 xs ys hy hn)) := by
  unfold perRows1
  apply pivPos_dom
  · have h0 : 0 < (endsOf xs ys hy (by omega)).dx0 := by
      simp only [endsOf, Ends.dx0]; exact sub_pos.mpr (hs.2 0 1 (by omega) (by omega))
    have h1 : 0 < (endsOf xs ys hy (by omega)).dxl1 := by
      simp only [endsOf, Ends.dxl1]; exact sub_pos.mpr (hs.2 _ _ (by omega) (by omega))
    simp only [periodicRow0, SweepInv, c2_eq]
    exact ⟨h1.le, by linarith⟩
  · intro r hr
    exact interiorRows_dom xs ys hy hs r (List.mem_of_mem_dropLast hr)

theorem perRows2_pivPos : PivPos (fwdAll (perRows2 xs ys hy hn)) := by
  have hl := interiorRows_length xs ys hy
  unfold perRows2 perRows1
  -- the interior part is non-empty
  cases hD : (interiorRows xs ys).dropLast with
  | nil =>
    have : (interiorRows xs ys).dropLast.length = xs.length - 3 := by simp [hl]; omega
    rw [hD] at this; simp at this; omega
  | cons d D =>
    simp only [rhs2Rows]
    apply pivPos_dom
    · have h0 : 0 < (endsOf xs ys hy (by omega)).dx0 := by
        simp only [endsOf, Ends.dx0]; exact sub_pos.mpr (hs.2 0 1 (by omega) (by omega))
      have h1 : 0 < (endsOf xs ys hy (by omega)).dxl1 := by
        simp only [endsOf, Ends.dxl1]; exact sub_pos.mpr (hs.2 _ _ (by omega) (by omega))
      simp only [periodicRow0, SweepInv, c2_eq]
      exact ⟨h1.le, by linarith⟩
    · apply rhs2Rows_go_dom
      intro r hr
      apply interiorRows_dom xs ys hy hs r
      apply List.mem_of_mem_dropLast
      rw [hD]; exact hr

/-- `|k2ᵢ| ≤ 1` -/
theorem per_k2_bound : ∀ k ∈ thomas (perRows2 xs ys hy hn), |k| ≤ 1 := by
  have hl := interiorRows_length xs ys hy
  have hdx0 : 0 < (endsOf xs ys hy (by omega)).dx0 := by
    simp only [endsOf, Ends.dx0]; exact sub_pos.mpr (hs.2 0 1 (by omega) (by omega))
  have hdx1 : 0 < (endsOf xs ys hy (by omega)).dxl1 := by
    simp only [endsOf, Ends.dxl1]; exact sub_pos.mpr (hs.2 _ _ (by omega) (by omega))
  unfold perRows2 perRows1
  cases hD : (interiorRows xs ys).dropLast with
  | nil =>
    have : (interiorRows xs ys).dropLast.length = xs.length - 3 := by simp [hl]; omega
    rw [hD] at this; simp at this; omega
  | cons d D =>
    simp only [rhs2Rows]
    apply thomas_bound _ _ 1 (by norm_num)
    · simp only [periodicRow0, c2_eq, const_scalar, abs_neg, one_mul]
      refine ⟨hdx1.le, by linarith, ?_⟩
      rw [abs_of_pos hdx0]; linarith
    · apply rhs2Rows_go_bound
      · intro r hr
        apply interiorRows_dom xs ys hy hs r
        apply List.mem_of_mem_dropLast
        rw [hD]; exact hr
      · intro r hr
        -- the last row of the condensed matrix is the interior row of knot `len-3`
        have hlen : (d :: D).length = xs.length - 3 := by rw [← hD]; simp [hl]; omega
        rw [← hD, List.getLast?_eq_getElem?, List.getElem?_dropLast] at hr
        have e1 : (interiorRows xs ys).dropLast.length - 1 = xs.length - 4 := by
          rw [hD, hlen]; omega
        rw [e1, if_pos (by omega)] at hr
        have := interiorRows_get xs ys hy (xs.length - 4) (by omega)
        rw [this] at hr
        have hr' := Option.some.inj hr
        subst hr'
        simp only [interiorRow, endsOf, abs_neg]
        have e2 : xs.length - 4 + 1 = xs.length - 3 := by omega
        have e3 : xs.length - 4 + 2 = xs.length - 2 := by omega
        simp only [e2, e3]
        have p1 : 0 < xs[xs.length - 3] - xs[xs.length - 4] := sub_pos.mpr (hs.2 _ _ (by omega) (by omega))
        have p2 : 0 < xs[xs.length - 2] - xs[xs.length - 3] := sub_pos.mpr (hs.2 _ _ (by omega) (by omega))
        rw [abs_of_pos p1]
        linarith

/-- **the periodic branch of `solve_for_k` solves the cyclic system** -/
theorem periodic_spec :
    ∃ ks : List F, ∃ (hk : ks.length = xs.length),
      periodicN xs ys (endsOf xs ys hy (by omega)) (xs[xs.length - 4]) = .ok ks ∧
      (∀ j (h : j + 2 < xs.length), interiorEq (xs[j]'(by omega)) (xs[j + 1]'(by omega)) xs[j + 2]
        (ys[j]'(by omega)) (ys[j + 1]'(by omega)) (ys[j + 2]'(by omega))
        (ks[j]'(by omega)) (ks[j + 1]'(by omega)) (ks[j + 2]'(by omega))) ∧
      ks[xs.length - 1]'(by omega) = ks[0]'(by omega) ∧
      (xs[1] - xs[0]) * ks[xs.length - 2]'(by omega) +
          2 * ((xs[xs.length - 1] - xs[xs.length - 2]) + (xs[1] - xs[0])) * ks[0]'(by omega) +
          (xs[xs.length - 1] - xs[xs.length - 2]) * ks[1]'(by omega) =
        3 * ((xs[1] - xs[0]) * (ys[xs.length - 1]'(by omega) - ys[xs.length - 2]'(by omega)) /
              (xs[xs.length - 1] - xs[xs.length - 2]) +
            (xs[xs.length - 1] - xs[xs.length - 2]) * (ys[1]'(by omega) - ys[0]'(by omega)) / (xs[1] - xs[0])) := by
  -- notation
  set e := endsOf xs ys hy (by omega) with he
  set k1 := thomas (perRows1 xs ys hy hn) with hk1
  set k2 := thomas (perRows2 xs ys hy hn) with hk2
  have hl1 : k1.length = xs.length - 2 := by rw [hk1, thomas_length, perRows1_length]
  have hl2 : k2.length = xs.length - 2 := by
    rw [hk2, thomas_length]; unfold perRows2; rw [rhs2Rows_length, perRows1_length]
  have sat1 : RowsSat (perRows1 xs ys hy hn) k1 :=
    (fullSat_iff_rowsSat _ _).mp (thomas_sound _ (perRows1_pivPos xs ys hy hn hs).pivOK)
  have sat2 : RowsSat (perRows2 xs ys hy hn) k2 :=
    (fullSat_iff_rowsSat _ _).mp (thomas_sound _ (perRows2_pivPos xs ys hy hn hs).pivOK)
  have hb := per_k2_bound xs ys hy hn hs
  -- positive interval lengths
  have hne : ∀ i j (hij : i < j) (hj : j < xs.length), 0 < xs[j] - xs[i]'(by omega) :=
    fun i j hij hj => sub_pos.mpr (hs.2 i j hij hj)
  have hdx0 : 0 < e.dx0 := by simp only [he, endsOf, Ends.dx0]; exact hne 0 1 (by omega) (by omega)
  have hd1 : 0 < e.dxl1 := by simp only [he, endsOf, Ends.dxl1]; exact hne _ _ (by omega) (by omega)
  have hd2 : 0 < e.dxl2 := by simp only [he, endsOf, Ends.dxl2]; exact hne _ _ (by omega) (by omega)
  -- accessors
  have g1 : ∀ i (h : i < xs.length - 2), k1.getD i 0 = k1[i]'(by omega) := by
    intro i h; rw [List.getD_eq_getElem?_getD, List.getElem?_eq_getElem (by omega)]; rfl
  have g2 : ∀ i (h : i < xs.length - 2), k2.getD i 0 = k2[i]'(by omega) := by
    intro i h; rw [List.getD_eq_getElem?_getD, List.getElem?_eq_getElem (by omega)]; rfl
  -- the denominator of `k_m1` is positive
  have hb0 : |k2.getD 0 0| ≤ 1 := by rw [g2 0 (by omega)]; exact hb _ (List.getElem_mem _)
  have hbl : |k2.getD (xs.length - 3) 0| ≤ 1 := by rw [g2 _ (by omega)]; exact hb _ (List.getElem_mem _)
  have hden : 0 < k2.getD 0 0 * e.dxl2 + k2.getD (xs.length - 3) 0 * e.dxl1 + 2 * (e.dxl1 + e.dxl2) := by
    have a1 := abs_le.mp hb0
    have a2 := abs_le.mp hbl
    nlinarith
  -- the result of the combination step
  have hN : periodicN xs ys (endsOf xs ys hy (by omega)) (xs[xs.length - 4]) =
      periodicCombine e.dxl1 e.dxl2 ys.length (periodicRhsLast e) k1 k2 := rfl
  have hC := periodicCombine_ok e.dxl1 e.dxl2 (periodicRhsLast e) ys.length k1 k2 (by rw [hy]; exact hl1)
    (by rw [hy]; exact hl2) (by rw [hy]; exact hn)
  have hC' : periodicCombine e.dxl1 e.dxl2 ys.length (periodicRhsLast e) k1 k2 = _ := hC
  rw [hy] at hC
  set κ := (periodicRhsLast e - k1.getD 0 0 * e.dxl2 - k1.getD (xs.length - 3) 0 * e.dxl1) /
      (k2.getD 0 0 * e.dxl2 + k2.getD (xs.length - 3) 0 * e.dxl1 + 2 * (e.dxl1 + e.dxl2)) with hκ
  set head := List.zipWith (fun a b => a + κ * b) k1 k2 with hhead
  have hhl : head.length = xs.length - 2 := by simp [hhead, hl1, hl2]
  set ks := head ++ [κ, k1.getD 0 0 + κ * k2.getD 0 0] with hks
  have hkl : ks.length = xs.length := by simp [hks, hhl]; omega
  -- entries of the result
  obtain ⟨ap1, ap2, ap3⟩ := append2_getD head κ (k1.getD 0 0 + κ * k2.getD 0 0)
  have kd : ∀ i (h : i < xs.length - 2), ks.getD i 0 = k1.getD i 0 + κ * k2.getD i 0 := by
    intro i h
    rw [hks, ap1 i (by omega), hhead, zipWith_getD _ _ _ i (by omega) (by omega)]
  have kκ : ks.getD (xs.length - 2) 0 = κ := by rw [hks, ← hhl]; exact ap2
  have kl : ks.getD (xs.length - 1) 0 = k1.getD 0 0 + κ * k2.getD 0 0 := by
    have : xs.length - 1 = head.length + 1 := by omega
    rw [hks, this]; exact ap3
  have ge : ∀ i (h : i < xs.length), ks[i]'(by omega) = ks.getD i 0 := by
    intro i h; rw [List.getD_eq_getElem?_getD, List.getElem?_eq_getElem (by omega)]; rfl
  -- the closing equation for κ
  have hκeq : e.dxl1 * (k1.getD (xs.length - 3) 0 + κ * k2.getD (xs.length - 3) 0) +
      2 * (e.dxl1 + e.dxl2) * κ + e.dxl2 * (k1.getD 0 0 + κ * k2.getD 0 0) = periodicRhsLast e := by
    have hm : κ * (k2.getD 0 0 * e.dxl2 + k2.getD (xs.length - 3) 0 * e.dxl1 + 2 * (e.dxl1 + e.dxl2)) =
        periodicRhsLast e - k1.getD 0 0 * e.dxl2 - k1.getD (xs.length - 3) 0 * e.dxl1 := by
      rw [hκ]; exact div_mul_cancel₀ _ (ne_of_gt hden)
    linear_combination hm
  -- rows of the two condensed systems
  have m1 := perRows1_length xs ys hy hn
  have m2 : (perRows2 xs ys hy hn).length = xs.length - 2 := by
    unfold perRows2; rw [rhs2Rows_length, m1]
  have row0_1 := sat1.2 0 (periodicRow0 e) (by show (perRows1 xs ys hy hn)[0]? = some (periodicRow0 e); rfl)
  have r2get : ∀ i (hi : i < xs.length - 2), (perRows2 xs ys hy hn)[i]? =
      some { lo := ((perRows1 xs ys hy hn)[i]'(by omega)).lo, mid := ((perRows1 xs ys hy hn)[i]'(by omega)).mid,
             up := ((perRows1 xs ys hy hn)[i]'(by omega)).up,
             rhs := if i = 0 then -e.dx0 else if i + 1 = (perRows1 xs ys hy hn).length then
               -(e.xl3 - xs[xs.length - 4]) else 0 } := by
    intro i hi
    unfold perRows2
    rw [rhs2Rows_get _ _ _ _ (by omega) i (by omega)]
  have r1_0 : (perRows1 xs ys hy hn)[0]'(by omega) = periodicRow0 e := rfl
  have r1_succ : ∀ i (hi : i + 3 < xs.length), (perRows1 xs ys hy hn)[i + 1]'(by omega) =
      interiorRow (xs[i]'(by omega)) (xs[i + 1]'(by omega)) (xs[i + 2]'(by omega))
        (ys[i]'(by omega)) (ys[i + 1]'(by omega)) (ys[i + 2]'(by omega)) := by
    intro i hi
    have := perRows1_get_succ xs ys hy hn i hi
    rw [List.getElem?_eq_getElem (by omega)] at this
    exact Option.some.inj this
  have row0_2 := sat2.2 0 _ (r2get 0 (by omega))
  simp only [if_true, zero_add, m1, m2, r1_0] at row0_1 row0_2
  rw [if_pos (by omega)] at row0_1 row0_2
  refine ⟨ks, hkl, hN.trans (by rw [hy]; exact hC), ?_, ?_, ?_⟩
  · -- interior knots
    intro j hj
    rw [ge j (by omega), ge (j + 1) (by omega), ge (j + 2) (by omega)]
    unfold interiorEq
    by_cases hlast : j + 3 = xs.length
    · -- knot len-2: the closing equation
      have e1 : j = xs.length - 3 := by omega
      subst e1
      have e2 : xs.length - 3 + 1 = xs.length - 2 := by omega
      have e3 : xs.length - 3 + 2 = xs.length - 1 := by omega
      simp only [e2, e3]
      rw [kd (xs.length - 3) (by omega), kκ, kl]
      have := hκeq
      simp only [periodicRhsLast, map1_scalar, map2_scalar, c3_eq, he, endsOf, Ends.dxl1, Ends.dxl2] at this
      simp only [he, endsOf, Ends.dxl1, Ends.dxl2] at hd1 hd2
      linear_combination this
    · -- knots 1 .. len-3: rows of the condensed systems
      have hj3 : j + 3 < xs.length := by omega
      have ra := sat1.2 (j + 1) _ (perRows1_get_succ xs ys hy hn j hj3)
      have rb := sat2.2 (j + 1) _ (r2get (j + 1) (by omega))
      simp only [Nat.add_eq_zero_iff, one_ne_zero, and_false, if_false, Nat.add_sub_cancel, m1, m2,
        r1_succ j hj3, interiorRow] at ra rb
      by_cases hpen : j + 4 = xs.length
      · -- knot len-3: its `up` term multiplies κ and sits on the right-hand side of the second system
        have e1 : j + 1 + 1 = xs.length - 2 := by omega
        rw [if_neg (by omega)] at ra rb
        rw [if_pos (by omega)] at rb
        rw [kd j (by omega), kd (j + 1) (by omega)]
        have : ks.getD (j + 2) 0 = κ := by
          have : j + 2 = xs.length - 2 := by omega
          rw [this]; exact kκ
        rw [this]
        have ex : e.xl3 - xs[xs.length - 4] = xs[j + 1] - xs[j] := by
          simp only [he, endsOf]
          congr 1 <;> congr 1 <;> omega
        rw [ex] at rb
        simp only [add_zero] at ra rb
        linear_combination ra + κ * rb
      · rw [if_pos (by omega)] at ra rb
        rw [if_neg (by omega)] at rb
        rw [kd j (by omega), kd (j + 1) (by omega), kd (j + 2) (by omega)]
        linear_combination ra + κ * rb
  · rw [ge _ (by omega), ge 0 (by omega), kl, kd 0 (by omega)]
  · -- row 0 of the cyclic system
    rw [ge _ (by omega), ge 0 (by omega), ge 1 (by omega), kκ, kd 0 (by omega), kd 1 (by omega)]
    simp only [periodicRow0, map1_scalar, map2_scalar, c2_eq, c3_eq, he, endsOf, Ends.dx0, Ends.dxl1] at row0_1 row0_2
    simp only [he, endsOf, Ends.dx0, Ends.dxl1] at hdx0 hd1
    linear_combination row0_1 + κ * row0_2

end periodic

end NdInterp
