/-
The Thomas algorithm of the model (`fwd`, `fwdAll`, `back`, `thomas` in `Model/Spline.lean`)
on single-lane data (`V = α`): if no pivot vanishes its output is *the* solution of the
tridiagonal system (`thomas_sound`, `thomas_unique`); pivots stay positive along rows that
are diagonally dominant with non-negative off-diagonals (`sweep_inv`).
-/
import NdInterp.Model.Spline
import Mathlib.Tactic.FieldSimp
import Mathlib.Tactic.Ring
import Mathlib.Tactic.LinearCombination
import Mathlib.Tactic.Linarith
import Mathlib.Tactic.GCongr
import Mathlib.Algebra.Order.Field.Basic

namespace NdInterp

/-! single-lane rows: the lane-wise maps are plain function application -/
@[simp] theorem map1_scalar {α : Type} (f : α → α) (a : α) : Lanes.map1 (V := α) f a = f a := rfl
@[simp] theorem map2_scalar {α : Type} (f : α → α → α) (a b : α) : Lanes.map2 (V := α) f a b = f a b := rfl
@[simp] theorem map3_scalar {α : Type} (f : α → α → α → α) (a b c : α) :
    Lanes.map3 (V := α) f a b c = f a b c := rfl
@[simp] theorem map4_scalar {α : Type} (f : α → α → α → α → α) (a b c d : α) :
    Lanes.map4 (V := α) f a b c d = f a b c d := rfl
@[simp] theorem const_scalar {α : Type} (a c : α) : Lanes.const (V := α) a c = c := rfl
@[simp] theorem all2_scalar {α : Type} (p : α → α → Bool) (a b : α) : Lanes.all2 (V := α) p a b = p a b := rfl

variable {F : Type} [Field F]

/-- the eliminated (upper bidiagonal) system -/
def BiSat : List (ERow F F) → List F → Prop
  | [], [] => True
  | [e], [k] => e.mid * k = e.rhs
  | e :: es, k :: k' :: ks => e.mid * k + e.up * k' = e.rhs ∧ BiSat es (k' :: ks)
  | _, _ => False

/-- no pivot vanishes -/
def PivOK : List (ERow F F) → Prop
  | [] => True
  | e :: es => e.mid ≠ 0 ∧ PivOK es

/-- rows below a row whose unknown is `kprev` -/
def TriSat (kprev : F) : List (Row F F) → List F → Prop
  | [], [] => True
  | [r], [k] => r.lo * kprev + r.mid * k = r.rhs
  | r :: rs, k :: k' :: ks => r.lo * kprev + r.mid * k + r.up * k' = r.rhs ∧ TriSat k rs (k' :: ks)
  | _, _ => False

/-- the whole tridiagonal system (`lo` of the first row and `up` of the last are not part of it) -/
def FullSat : List (Row F F) → List F → Prop
  | [], [] => True
  | [r], [k] => r.mid * k = r.rhs
  | r :: rs, k :: k' :: ks => r.mid * k + r.up * k' = r.rhs ∧ TriSat k rs (k' :: ks)
  | _, _ => False

theorem back_length (es : List (ERow F F)) : (back es).length = es.length := by
  induction es with
  | nil => rfl
  | cons e es ih =>
    cases es with
    | nil => rfl
    | cons e2 rest =>
      simp only [back]
      split
      · next h => simp [h] at ih
      · next k ks h => simp [h] at ih ⊢; omega

theorem fwd_length (pm pu pr : F) (rows : List (Row F F)) : (fwd pm pu pr rows).length = rows.length := by
  induction rows generalizing pm pu pr with
  | nil => rfl
  | cons r rest ih => simp [fwd, ih]

theorem fwdAll_length (rows : List (Row F F)) : (fwdAll rows).length = rows.length := by
  cases rows with
  | nil => rfl
  | cons r rest => simp [fwdAll, fwd_length]

theorem thomas_length (rows : List (Row F F)) : (thomas rows).length = rows.length := by
  simp [thomas, back_length, fwdAll_length]

theorem back_sat (es : List (ERow F F)) (h : PivOK es) : BiSat es (back es) := by
  induction es with
  | nil => trivial
  | cons e es ih =>
    cases es with
    | nil => simp [back, BiSat]; field_simp [h.1]
    | cons e2 rest =>
      have ih' := ih h.2
      simp only [back]
      split
      · next hb => have := back_length (e2 :: rest); simp [hb] at this
      · next k ks hb =>
        rw [hb] at ih'
        refine ⟨?_, ih'⟩
        have := h.1
        simp only [map2_scalar]
        field_simp
        ring

theorem back_unique (es : List (ERow F F)) (h : PivOK es) (ks : List F) (hs : BiSat es ks) :
    ks = back es := by
  induction es generalizing ks with
  | nil => cases ks <;> simp_all [BiSat, back]
  | cons e es ih =>
    cases es with
    | nil =>
      match ks, hs with
      | [k], hs =>
        simp only [BiSat] at hs
        simp only [back, map1_scalar]
        have := h.1
        congr 1
        field_simp
        linear_combination hs
    | cons e2 rest =>
      match ks, hs with
      | k :: k' :: ks', hs =>
        obtain ⟨h1, h2⟩ := hs
        have ih' := ih h.2 (k' :: ks') h2
        simp only [back]
        rw [← ih']
        simp only [map2_scalar]
        have := h.1
        congr 1
        field_simp
        linear_combination h1

/-- forward elimination preserves the solution set -/
theorem fwd_equiv (rows : List (Row F F)) (pm pu pr kprev : F) (ks : List F)
    (hp : pm ≠ 0) (hpiv : PivOK (fwd pm pu pr rows))
    (hprev : ∀ k, ks.head? = some k → pm * kprev + pu * k = pr) :
    TriSat kprev rows ks ↔ BiSat (fwd pm pu pr rows) ks := by
  induction rows generalizing pm pu pr kprev ks with
  | nil => cases ks <;> simp [TriSat, BiSat, fwd]
  | cons r rs ih =>
    cases rs with
    | nil =>
      match ks with
      | [] => simp [TriSat, BiSat, fwd]
      | [k] =>
        have hk := hprev k rfl
        simp only [TriSat, BiSat, fwd, map2_scalar]
        constructor
        · intro h; field_simp; linear_combination pm * h - r.lo * hk
        · intro h; field_simp at h; apply mul_left_cancel₀ hp; linear_combination h + r.lo * hk
      | k :: k' :: ks' => simp [TriSat, BiSat, fwd]
    | cons r2 rs' =>
      match ks with
      | [] => simp [TriSat, BiSat, fwd]
      | [k] => simp [TriSat, BiSat, fwd]
      | k :: k' :: ks' =>
        have hk := hprev k rfl
        simp only [fwd] at hpiv
        have hm' := hpiv.1
        simp only [TriSat, fwd, BiSat, map2_scalar]
        have step : (r.lo * kprev + r.mid * k + r.up * k' = r.rhs) ↔
            ((r.mid - r.lo / pm * pu) * k + r.up * k' = r.rhs - r.lo / pm * pr) := by
          constructor
          · intro h; field_simp; linear_combination pm * h - r.lo * hk
          · intro h; field_simp at h; apply mul_left_cancel₀ hp; linear_combination h + r.lo * hk
        constructor
        · rintro ⟨h1, h2⟩
          have e1 := step.mp h1
          refine ⟨e1, ?_⟩
          exact (ih _ _ _ k (k' :: ks') hm' hpiv.2
            (by intro k0 hk0; simp at hk0; subst hk0; exact e1)).mp h2
        · rintro ⟨h1, h2⟩
          refine ⟨step.mpr h1, ?_⟩
          exact (ih _ _ _ k (k' :: ks') hm' hpiv.2
            (by intro k0 hk0; simp at hk0; subst hk0; exact h1)).mpr h2

/-- the full system and its eliminated form have the same solutions -/
theorem fullSat_iff (rows : List (Row F F)) (ks : List F) (hpiv : PivOK (fwdAll rows)) :
    FullSat rows ks ↔ BiSat (fwdAll rows) ks := by
  match rows, ks with
  | [], [] => simp [FullSat, BiSat, fwdAll]
  | [], _ :: _ => simp [FullSat, BiSat, fwdAll]
  | _ :: _, [] => simp [FullSat, BiSat, fwdAll]
  | [r], [k] => simp [FullSat, BiSat, fwdAll, fwd]
  | [r], _ :: _ :: _ => simp [FullSat, TriSat, BiSat, fwdAll, fwd]
  | r :: r2 :: rs, [k] => simp [FullSat, BiSat, fwdAll, fwd]
  | r :: r2 :: rs, k :: k' :: ks =>
    simp only [fwdAll] at hpiv
    simp only [FullSat, fwdAll, BiSat, fwd]
    constructor
    · rintro ⟨h1, h2⟩
      exact ⟨h1, (fwd_equiv (r2 :: rs) r.mid r.up r.rhs k (k' :: ks) hpiv.1 hpiv.2
        (by intro k0 hk0; simp at hk0; subst hk0; exact h1)).mp h2⟩
    · rintro ⟨h1, h2⟩
      exact ⟨h1, (fwd_equiv (r2 :: rs) r.mid r.up r.rhs k (k' :: ks) hpiv.1 hpiv.2
        (by intro k0 hk0; simp at hk0; subst hk0; exact h1)).mpr h2⟩

/-- **thomas_sound**: with non-vanishing pivots the output solves every row. -/
theorem thomas_sound (rows : List (Row F F)) (hpiv : PivOK (fwdAll rows)) :
    FullSat rows (thomas rows) :=
  (fullSat_iff rows _ hpiv).mpr (back_sat _ hpiv)

/-- **thomas_unique**: any solution of the rows is the output. -/
theorem thomas_unique (rows : List (Row F F)) (hpiv : PivOK (fwdAll rows)) (ks : List F)
    (h : FullSat rows ks) : ks = thomas rows :=
  back_unique _ hpiv ks ((fullSat_iff rows ks hpiv).mp h)

/-! ### pivots -/

section order
variable [LinearOrder F] [IsStrictOrderedRing F]

/-- non-negative off-diagonals, strictly dominant diagonal -/
def Dom (r : Row F F) : Prop := 0 ≤ r.lo ∧ 0 ≤ r.up ∧ r.lo + r.up < r.mid

/-- all pivots of an eliminated system are positive -/
def PivPos : List (ERow F F) → Prop
  | [] => True
  | e :: es => 0 < e.mid ∧ PivPos es

theorem PivPos.pivOK : ∀ {es : List (ERow F F)}, PivPos es → PivOK es
  | [], _ => trivial
  | _ :: _, h => ⟨ne_of_gt h.1, PivPos.pivOK h.2⟩

theorem pivPos_append {a b : List (ERow F F)} : PivPos (a ++ b) ↔ PivPos a ∧ PivPos b := by
  induction a with
  | nil => simp [PivPos]
  | cons e a ih => simp [PivPos, ih, and_assoc]

/-- state of the sweep after a row: `0 ≤ up < pivot` -/
def SweepInv (pm pu : F) : Prop := 0 ≤ pu ∧ pu < pm

/-- what is known about the sweep state `(pm', pu')` in front of the last row -/
def Reach (rows : List (Row F F)) (pm pu pm' pu' : F) : Prop :=
  match rows.getLast? with
  | some r => r.mid - r.lo ≤ pm' ∧ pu' = r.up
  | none => pm' = pm ∧ pu' = pu

/-- sweeping over dominant rows and then one more row `l` whose pivot is positive in every
    state the sweep can reach: all pivots are positive. -/
theorem sweep_last (rows : List (Row F F)) (l : Row F F) (pm pu pr : F) (h : SweepInv pm pu)
    (hd : ∀ r ∈ rows, Dom r)
    (hl : ∀ pm' pu', SweepInv pm' pu' → Reach rows pm pu pm' pu' → 0 < l.mid - l.lo / pm' * pu') :
    PivPos (fwd pm pu pr (rows ++ [l])) := by
  induction rows generalizing pm pu pr with
  | nil =>
    simp only [List.nil_append, fwd, PivPos, and_true]
    exact hl pm pu h ⟨rfl, rfl⟩
  | cons r rest ih =>
    have ⟨hlo, hup, hmid⟩ := hd r (by simp)
    have hpm : 0 < pm := lt_of_le_of_lt h.1 h.2
    have key : r.lo / pm * pu ≤ r.lo := by
      have : pu / pm ≤ 1 := by rw [div_le_one hpm]; exact h.2.le
      calc r.lo / pm * pu = r.lo * (pu / pm) := by ring
        _ ≤ r.lo * 1 := by gcongr
        _ = r.lo := by ring
    have hinv : SweepInv (r.mid - r.lo / pm * pu) r.up := ⟨hup, by linarith⟩
    have hpos : 0 < r.mid - r.lo / pm * pu := lt_of_le_of_lt hup hinv.2
    simp only [List.cons_append, fwd, PivPos]
    refine ⟨hpos, ih _ _ _ hinv (fun r' hr' => hd r' (by simp [hr'])) ?_⟩
    intro pm' pu' hi hr
    apply hl pm' pu' hi
    unfold Reach at hr ⊢
    cases rest with
    | nil =>
      simp only [List.getLast?_nil] at hr
      simp only [List.getLast?_singleton]
      obtain ⟨e1, e2⟩ := hr
      subst e1; subst e2
      exact ⟨by linarith, rfl⟩
    | cons r2 rest' =>
      rw [List.getLast?_cons_cons]
      exact hr

end order

end NdInterp
