/-
The tridiagonal system `solve_for_k` assembles (single lane), its rows by index, the
positivity of all Thomas pivots for every non-periodic boundary combination, and hence:
`solveForK` returns *the* solution of the system (`solveForK_sat`, `solveForK_unique`).
-/
import NdInterp.Lemmas.RowsSat
import NdInterp.Lemmas.StrictInc
import Mathlib.Tactic.Positivity

namespace NdInterp

variable {F : Type} [Field F]

@[simp] theorem c0_eq : (c0 : F) = 0 := by simp [c0]
@[simp] theorem c1_eq : (c1 : F) = 1 := by simp [c1]
@[simp] theorem c2_eq : (c2 : F) = 2 := by simp [c2]
@[simp] theorem c3_eq : (c3 : F) = 3 := by simp [c3]

/-- interior row of knot `i+1` built from the window `(x[i], x[i+1], x[i+2])` -/
def interiorRow (x0 x1 x2 y0 y1 y2 : F) : Row F F :=
  { lo := x2 - x1
    mid := 2 * ((x2 - x1) + (x1 - x0))
    up := x1 - x0
    rhs := 3 * ((x2 - x1) * (y1 - y0) / (x1 - x0) + (x1 - x0) * (y2 - y1) / (x2 - x1)) }

theorem interiorRows_length (xs ys : List F) (hl : ys.length = xs.length) :
    (interiorRows xs ys).length = xs.length - 2 := by
  induction xs generalizing ys with
  | nil => cases ys <;> simp [interiorRows]
  | cons x0 xs ih =>
    match xs, ys, hl with
    | [], [_], _ => simp [interiorRows]
    | [x1], [_, _], _ => simp [interiorRows]
    | x1 :: x2 :: xs', y0 :: y1 :: y2 :: ys', hl =>
      simp only [interiorRows, List.length_cons]
      rw [ih (y1 :: y2 :: ys') (by simpa using hl)]
      simp

theorem interiorRows_get (xs ys : List F) (hl : ys.length = xs.length) (i : Nat)
    (hi : i + 2 < xs.length) :
    (interiorRows xs ys)[i]? =
      some (interiorRow (xs[i]'(by omega)) (xs[i + 1]'(by omega)) xs[i + 2]
        (ys[i]'(by omega)) (ys[i + 1]'(by omega)) (ys[i + 2]'(by omega))) := by
  induction xs generalizing ys i with
  | nil => simp at hi
  | cons x0 xs ih =>
    match xs, ys, hl with
    | [], _, _ => simp at hi
    | [x1], _, _ => simp at hi
    | x1 :: x2 :: xs', y0 :: y1 :: y2 :: ys', hl =>
      cases i with
      | zero => simp [interiorRows, interiorRow]
      | succ i =>
        simp only [interiorRows, List.getElem?_cons_succ]
        rw [ih (y1 :: y2 :: ys') (by simpa using hl) i (by simpa using hi)]
        simp

section order
variable [LinearOrder F] [IsStrictOrderedRing F]

theorem interiorRow_dom (x0 x1 x2 y0 y1 y2 : F) (h1 : x0 < x1) (h2 : x1 < x2) :
    Dom (interiorRow x0 x1 x2 y0 y1 y2) := by
  refine ⟨?_, ?_, ?_⟩ <;> simp only [interiorRow] <;> linarith

theorem interiorRows_dom (xs ys : List F) (hl : ys.length = xs.length) (hs : StrictInc xs) :
    ∀ r ∈ interiorRows xs ys, Dom r := by
  intro r hr
  obtain ⟨i, hi, rfl⟩ := List.getElem_of_mem hr
  have hlen := interiorRows_length xs ys hl
  have hi2 : i + 2 < xs.length := by omega
  have := interiorRows_get xs ys hl i hi2
  rw [List.getElem?_eq_getElem hi] at this
  rw [Option.some.inj this]
  exact interiorRow_dom _ _ _ _ _ _ (hs.2 i (i + 1) (by omega) (by omega))
    (hs.2 (i + 1) (i + 2) (by omega) hi2)

end order

/-- `getEnds` on well-formed input -/
theorem getEnds_eq (xs ys : List F) (hl : ys.length = xs.length) (hn : 3 ≤ xs.length) :
    getEnds xs ys = .ok
      { x0 := xs[0], x1 := xs[1], x2 := xs[2]
        xl1 := xs[xs.length - 1], xl2 := xs[xs.length - 2], xl3 := xs[xs.length - 3]
        y0 := ys[0], y1 := ys[1], y2 := ys[2]
        yl1 := ys[xs.length - 1]'(by omega), yl2 := ys[xs.length - 2]'(by omega)
        yl3 := ys[xs.length - 3]'(by omega) } := by
  unfold getEnds
  have r (l : List F) (i : Nat) (h : i < l.length) : rd l i = .ok l[i] := by simp [rd, h]
  simp only [hl, r xs 0 (by omega), r xs 1 (by omega), r xs 2 (by omega),
    r xs (xs.length - 1) (by omega), r xs (xs.length - 2) (by omega), r xs (xs.length - 3) (by omega),
    r ys 0 (by omega), r ys 1 (by omega), r ys 2 (by omega),
    r ys (xs.length - 1) (by omega), r ys (xs.length - 2) (by omega), r ys (xs.length - 3) (by omega),
    bind, Except.bind, pure, Except.pure]

/-- the explicit `Ends` of well-formed input -/
def endsOf (xs ys : List F) (hl : ys.length = xs.length) (hn : 3 ≤ xs.length) : Ends F F :=
  { x0 := xs[0], x1 := xs[1], x2 := xs[2]
    xl1 := xs[xs.length - 1], xl2 := xs[xs.length - 2], xl3 := xs[xs.length - 3]
    y0 := ys[0], y1 := ys[1], y2 := ys[2]
    yl1 := ys[xs.length - 1]'(by omega), yl2 := ys[xs.length - 2]'(by omega)
    yl3 := ys[xs.length - 3]'(by omega) }

theorem getEnds_eq' (xs ys : List F) (hl : ys.length = xs.length) (hn : 3 ≤ xs.length) :
    getEnds xs ys = .ok (endsOf xs ys hl hn) := getEnds_eq xs ys hl hn

theorem interiorRows_getLast (xs ys : List F) (hl : ys.length = xs.length) (hn : 3 ≤ xs.length) :
    (interiorRows xs ys).getLast? =
      some (interiorRow xs[xs.length - 3] xs[xs.length - 2] xs[xs.length - 1]
        (ys[xs.length - 3]'(by omega)) (ys[xs.length - 2]'(by omega)) (ys[xs.length - 1]'(by omega))) := by
  have hlen := interiorRows_length xs ys hl
  rw [List.getLast?_eq_getElem?, hlen]
  have := interiorRows_get xs ys hl (xs.length - 3) (by omega)
  have e1 : xs.length - 2 - 1 = xs.length - 3 := by omega
  rw [e1, this]
  congr 2 <;> congr 1 <;> omega

theorem interiorRows_head (xs ys : List F) (hl : ys.length = xs.length) (hn : 3 ≤ xs.length) :
    ∃ rest, interiorRows xs ys = interiorRow xs[0] xs[1] xs[2] ys[0] ys[1] ys[2] :: rest := by
  match xs, ys, hl, hn with
  | x0 :: x1 :: x2 :: xs', y0 :: y1 :: y2 :: ys', _, _ =>
    exact ⟨interiorRows (x1 :: x2 :: xs') (y1 :: y2 :: ys'), by simp [interiorRows, interiorRow]⟩

section pivots
variable [LinearOrder F] [IsStrictOrderedRing F]

/-- the last row of a FirstDeriv / SecondDeriv right end has a positive pivot in every sweep state -/
theorem last_fd_ok (v pm' pu' : F) (e : Ends F F) :
    ∀ l, lastRow e (.firstDeriv v) = some l → 0 < l.mid - l.lo / pm' * pu' := by
  intro l hl
  simp only [lastRow, Option.some.injEq] at hl
  subst hl
  simp

theorem last_sd_ok (v pm' pu' : F) (e : Ends F F) (hd : 0 < e.dxl1) (hi : SweepInv pm' pu') :
    ∀ l, lastRow e (.secondDeriv v) = some l → 0 < l.mid - l.lo / pm' * pu' := by
  intro l hl
  simp only [lastRow, Option.some.injEq] at hl
  subst hl
  have hpm : 0 < pm' := lt_of_le_of_lt hi.1 hi.2
  have : pu' / pm' < 1 := by rw [div_lt_one hpm]; exact hi.2
  simp only [c2_eq]
  have : e.dxl1 / pm' * pu' = e.dxl1 * (pu' / pm') := by ring
  rw [this]
  nlinarith

theorem last_nak_ok (pm' pu' : F) (e : Ends F F) (hd1 : 0 < e.dxl1) (hd2 : 0 < e.dxl2)
    (hi : SweepInv pm' pu') (hpu : pu' = e.dxl2) (hpm : e.dxl1 + 2 * e.dxl2 ≤ pm') :
    ∀ l, lastRow e .notAKnot = some l → 0 < l.mid - l.lo / pm' * pu' := by
  intro l hl
  simp only [lastRow, Option.some.injEq] at hl
  subst hl
  have hpos : 0 < pm' := lt_of_le_of_lt hi.1 hi.2
  have hd : e.xl1 - e.xl3 = e.dxl1 + e.dxl2 := by simp [Ends.dxl1, Ends.dxl2]
  simp only [hd, hpu]
  have : (e.dxl1 + e.dxl2) / pm' < 1 := by rw [div_lt_one hpos]; linarith
  have e2 : (e.dxl1 + e.dxl2) / pm' * e.dxl2 = e.dxl2 * ((e.dxl1 + e.dxl2) / pm') := by ring
  rw [e2]
  nlinarith

/-- sweep over dominated rows `D`, then the last row of the right boundary -/
theorem sweep_to_last (xs ys : List F) (hl : ys.length = xs.length) (hn : 3 ≤ xs.length)
    (hs : StrictInc xs) (right : SingleBoundary F) (l : Row F F)
    (hlr : lastRow (endsOf xs ys hl hn) right.specialize = some l)
    (D : List (Row F F)) (hD : ∀ r ∈ D, Dom r)
    (hDl : D ≠ [] → D.getLast? = (interiorRows xs ys).getLast?)
    (hnak : right = .notAKnot → D ≠ [])
    (pm pu pr : F) (hi : SweepInv pm pu) :
    PivPos (fwd pm pu pr (D ++ [l])) := by
  set e := endsOf xs ys hl hn with he
  have hd1 : 0 < e.dxl1 := by
    simp only [he, endsOf, Ends.dxl1]
    exact sub_pos.mpr (hs.2 _ _ (by omega) (by omega))
  have hd2 : 0 < e.dxl2 := by
    simp only [he, endsOf, Ends.dxl2]
    exact sub_pos.mpr (hs.2 _ _ (by omega) (by omega))
  apply sweep_last D l pm pu pr hi hD
  intro pm' pu' hi' hr
  cases right with
  | firstDeriv v => exact last_fd_ok v pm' pu' e l hlr
  | clamped => exact last_fd_ok _ pm' pu' e l hlr
  | secondDeriv v => exact last_sd_ok v pm' pu' e hd1 hi' l hlr
  | natural => exact last_sd_ok _ pm' pu' e hd1 hi' l hlr
  | notAKnot =>
    have hne := hnak rfl
    have hg := hDl hne
    rw [interiorRows_getLast xs ys hl hn] at hg
    unfold Reach at hr
    rw [hg] at hr
    obtain ⟨h1, h2⟩ := hr
    refine last_nak_ok pm' pu' e hd1 hd2 hi' ?_ ?_ l hlr
    · rw [h2]; simp [interiorRow, he, endsOf, Ends.dxl2]
    · refine le_trans (le_of_eq ?_) h1
      simp only [interiorRow, he, endsOf, Ends.dxl1, Ends.dxl2]
      ring

/-- **all Thomas pivots of the assembled system are positive**, for every non-periodic
    boundary pair on a strictly increasing axis (the 3-point NotAKnot/NotAKnot case is the
    separate parabola system). -/
theorem sys_pivPos (xs ys : List F) (hl : ys.length = xs.length) (hn : 3 ≤ xs.length)
    (hs : StrictInc xs) (left right : SingleBoundary F)
    (hpar : ¬ (xs.length = 3 ∧ isNakPair left right = true))
    (f l : Row F F)
    (hf : firstRow (endsOf xs ys hl hn) left.specialize = some f)
    (hlr : lastRow (endsOf xs ys hl hn) right.specialize = some l) :
    PivPos (fwdAll (f :: interiorRows xs ys ++ [l])) := by
  set e := endsOf xs ys hl hn with he
  have hdx0 : 0 < e.dx0 := by
    simp only [he, endsOf, Ends.dx0]; exact sub_pos.mpr (hs.2 0 1 (by omega) (by omega))
  have hdx1 : 0 < e.dx1 := by
    simp only [he, endsOf, Ends.dx1]; exact sub_pos.mpr (hs.2 1 2 (by omega) (by omega))
  have hI := interiorRows_dom xs ys hl hs
  have hIlen := interiorRows_length xs ys hl
  have hIne : interiorRows xs ys ≠ [] := by
    intro h; rw [h] at hIlen; simp at hIlen; omega
  -- left end FirstDeriv / SecondDeriv: the invariant holds right after the first row
  have easy : ∀ (f : Row F F), SweepInv f.mid f.up → 0 < f.mid →
      PivPos (fwdAll (f :: interiorRows xs ys ++ [l])) := by
    intro f hi hp
    simp only [List.cons_append, fwdAll, PivPos]
    exact ⟨hp, sweep_to_last xs ys hl hn hs right l hlr _ hI (fun _ => rfl) (fun _ => hIne) _ _ _ hi⟩
  cases left with
  | firstDeriv v =>
    simp only [SingleBoundary.specialize, firstRow, Option.some.injEq] at hf
    subst hf
    exact easy _ ⟨by simp, by simp⟩ (by simp)
  | clamped =>
    simp only [SingleBoundary.specialize, firstRow, Option.some.injEq] at hf
    subst hf
    exact easy _ ⟨by simp, by simp⟩ (by simp)
  | secondDeriv v =>
    simp only [SingleBoundary.specialize, firstRow, Option.some.injEq] at hf
    subst hf
    exact easy _ ⟨by simp only; linarith, by simp only [c2_eq]; linarith⟩ (by simp only [c2_eq]; linarith)
  | natural =>
    simp only [SingleBoundary.specialize, firstRow, Option.some.injEq] at hf
    subst hf
    exact easy _ ⟨by simp only; linarith, by simp only [c2_eq]; linarith⟩ (by simp only [c2_eq]; linarith)
  | notAKnot =>
    simp only [SingleBoundary.specialize, firstRow, Option.some.injEq] at hf
    subst hf
    obtain ⟨rest, hrest⟩ := interiorRows_head xs ys hl hn
    have hIr := hI
    rw [hrest] at hIr hIlen hIne ⊢
    simp only [List.cons_append, fwdAll, fwd, PivPos, map2_scalar]
    -- pivot of row 1 after the NotAKnot first row: `dx0 + dx1`
    have hm1 : (interiorRow xs[0] xs[1] xs[2] ys[0] ys[1] ys[2]).mid -
        (interiorRow xs[0] xs[1] xs[2] ys[0] ys[1] ys[2]).lo / e.dx1 * (e.x2 - e.x0) = e.dx0 + e.dx1 := by
      simp only [interiorRow, he, endsOf, Ends.dx0, Ends.dx1]
      have : xs[2] - xs[1] ≠ 0 := ne_of_gt (by simpa [he, endsOf, Ends.dx1] using hdx1)
      field_simp
      ring
    rw [hm1]
    have hup : (interiorRow xs[0] xs[1] xs[2] ys[0] ys[1] ys[2]).up = e.dx0 := by
      simp [interiorRow, he, endsOf, Ends.dx0]
    refine ⟨hdx1, by linarith, ?_⟩
    apply sweep_to_last xs ys hl hn hs right l hlr rest (fun r hr => hIr r (by simp [hr]))
    · intro hne
      rw [hrest]
      cases rest with
      | nil => exact absurd rfl hne
      | cons r2 rest' => rw [List.getLast?_cons_cons]
    · intro hr
      subst hr
      intro hnil
      subst hnil
      simp only [List.length_singleton] at hIlen
      exact hpar ⟨by omega, rfl⟩
    · rw [hup]; exact ⟨hdx0.le, by linarith⟩

/-- pivots of the 3-point NotAKnot/NotAKnot (parabola) system -/
theorem parabola_pivPos (xs ys : List F) (hl : ys.length = xs.length) (hn : 3 ≤ xs.length)
    (hs : StrictInc xs) : PivPos (fwdAll (parabolaRows (endsOf xs ys hl hn))) := by
  set e := endsOf xs ys hl hn with he
  have hdx0 : 0 < e.dx0 := by
    simp only [he, endsOf, Ends.dx0]; exact sub_pos.mpr (hs.2 0 1 (by omega) (by omega))
  have hdx1 : 0 < e.dx1 := by
    simp only [he, endsOf, Ends.dx1]; exact sub_pos.mpr (hs.2 1 2 (by omega) (by omega))
  simp only [parabolaRows, fwdAll, fwd, PivPos, c0_eq, c1_eq, c2_eq, map2_scalar, map1_scalar,
    and_true, div_one, mul_one]
  refine ⟨by norm_num, by linarith, ?_⟩
  have hp : 0 < 2 * (e.dx0 + e.dx1) - e.dx1 := by linarith
  rw [sub_pos, div_mul_eq_mul_div, div_lt_one hp]
  linarith

end pivots

/-! ### `solve_for_k` returns the solution of the system -/

section solve
variable [LinearOrder F] [IsStrictOrderedRing F] [Cmp F]

/-- the rows of the system for a non-periodic boundary pair -/
def sysRows (xs ys : List F) (hl : ys.length = xs.length) (hn : 3 ≤ xs.length)
    (left right : SingleBoundary F) : List (Row F F) :=
  if xs.length = 3 ∧ isNakPair left right = true then parabolaRows (endsOf xs ys hl hn)
  else
    match firstRow (endsOf xs ys hl hn) left.specialize,
      lastRow (endsOf xs ys hl hn) right.specialize with
    | some f, some l => f :: interiorRows xs ys ++ [l]
    | _, _ => []

theorem firstRow_some (e : Ends F F) (b : SingleBoundary F) : ∃ f, firstRow e b.specialize = some f := by
  cases b <;> simp [SingleBoundary.specialize, firstRow]

theorem lastRow_some (e : Ends F F) (b : SingleBoundary F) : ∃ l, lastRow e b.specialize = some l := by
  cases b <;> simp [SingleBoundary.specialize, lastRow]

theorem sysRows_pivPos (xs ys : List F) (hl : ys.length = xs.length) (hn : 3 ≤ xs.length)
    (hs : StrictInc xs) (left right : SingleBoundary F) :
    PivPos (fwdAll (sysRows xs ys hl hn left right)) := by
  unfold sysRows
  split
  · exact parabola_pivPos xs ys hl hn hs
  · next hpar =>
    obtain ⟨f, hf⟩ := firstRow_some (endsOf xs ys hl hn) left
    obtain ⟨l, hlr⟩ := lastRow_some (endsOf xs ys hl hn) right
    rw [hf, hlr]
    exact sys_pivPos xs ys hl hn hs left right hpar f l hf hlr

theorem sysRows_length (xs ys : List F) (hl : ys.length = xs.length) (hn : 3 ≤ xs.length)
    (left right : SingleBoundary F) : (sysRows xs ys hl hn left right).length = xs.length := by
  unfold sysRows
  split
  · next h => simp [parabolaRows, h.1]
  · obtain ⟨f, hf⟩ := firstRow_some (endsOf xs ys hl hn) left
    obtain ⟨l, hlr⟩ := lastRow_some (endsOf xs ys hl hn) right
    rw [hf, hlr]
    simp [interiorRows_length xs ys hl]
    omega

/-- **`solve_for_k` = Thomas on the system rows** (non-periodic boundaries) -/
theorem solveForK_mixed (xs ys : List F) (hl : ys.length = xs.length) (hn : 3 ≤ xs.length)
    (left right : SingleBoundary F) :
    solveForK (V := F) xs ys (.mixed left right) = .ok (thomas (sysRows xs ys hl hn left right)) := by
  unfold solveForK sysRows
  have hg : (3 ≤ ys.length ∧ xs.length = ys.length) := ⟨by omega, hl.symm⟩
  simp only [hg, not_true_eq_false, and_self, if_false, getEnds_eq' xs ys hl hn, bind, Except.bind,
    pure, Except.pure, InternalBoundary.specialize]
  obtain ⟨f, hf⟩ := firstRow_some (endsOf xs ys hl hn) left
  obtain ⟨l, hlr⟩ := lastRow_some (endsOf xs ys hl hn) right
  by_cases hp : xs.length = 3 ∧ isNakPair left right = true
  · have : (decide (ys.length = 3) && isNakPair left right) = true := by
      simp [hl, hp.1, hp.2]
    have h3 : ys.length = 3 := by omega
    simp [this, hp, h3]
  · have : (decide (ys.length = 3) && isNakPair left right) = false := by
      rw [hl]
      by_cases h3 : xs.length = 3
      · have : isNakPair left right = false := by
          cases h : isNakPair left right
          · rfl
          · exact absurd ⟨h3, h⟩ hp
        simp [this]
      · simp [h3]
    have hp' : ¬ (ys.length = 3 ∧ isNakPair left right = true) := by rw [hl]; exact hp
    simp [this, hp, hp', hf, hlr]

theorem solveForK_nonmixed (xs ys : List F) (b : InternalBoundary F) :
    (b = .natural → solveForK (V := F) xs ys b = solveForK (V := F) xs ys (.mixed .natural .natural)) ∧
    (b = .clamped → solveForK (V := F) xs ys b = solveForK (V := F) xs ys (.mixed .clamped .clamped)) ∧
    (b = .notAKnot → solveForK (V := F) xs ys b = solveForK (V := F) xs ys (.mixed .notAKnot .notAKnot)) := by
  refine ⟨?_, ?_, ?_⟩ <;> rintro rfl <;> simp [solveForK, InternalBoundary.specialize]

/-- **solveForK_sat / solveForK_unique**: the returned slopes are *the* solution of the system. -/
theorem solveForK_spec (xs ys : List F) (hl : ys.length = xs.length) (hn : 3 ≤ xs.length)
    (hs : StrictInc xs) (left right : SingleBoundary F) :
    ∃ ks, solveForK (V := F) xs ys (.mixed left right) = .ok ks ∧ ks.length = xs.length ∧
      RowsSat (sysRows xs ys hl hn left right) ks ∧
      ∀ ks', RowsSat (sysRows xs ys hl hn left right) ks' → ks' = ks := by
  have hp := (sysRows_pivPos xs ys hl hn hs left right).pivOK
  refine ⟨_, solveForK_mixed xs ys hl hn left right, ?_, ?_, ?_⟩
  · rw [thomas_length, sysRows_length]
  · exact (fullSat_iff_rowsSat _ _).mp (thomas_sound _ hp)
  · intro ks' h
    exact thomas_unique _ hp ks' ((fullSat_iff_rowsSat _ _).mpr h)

end solve

end NdInterp
