/-
Index form of "the tridiagonal system holds": row `i` reads
`lo·k[i-1] + mid·k[i] + up·k[i+1] = rhs` (without the `lo` term in the first and the `up`
term in the last row).  Equivalent to the recursive `FullSat` the Thomas lemmas use.
-/
import NdInterp.Lemmas.Thomas

namespace NdInterp

variable {F : Type} [Field F]

/-- row `i` of a system with `n` rows, `kprev` standing for the unknown before the first row -/
def rowHolds (n : Nat) (ks : List F) (kprev : F) (i : Nat) (r : Row F F) : Prop :=
  r.lo * (if i = 0 then kprev else ks.getD (i - 1) 0) + r.mid * ks.getD i 0 +
    (if i + 1 < n then r.up * ks.getD (i + 1) 0 else 0) = r.rhs

theorem triSat_iff (kprev : F) (rows : List (Row F F)) (ks : List F) :
    TriSat kprev rows ks ↔
      ks.length = rows.length ∧
        ∀ i r, rows[i]? = some r → rowHolds rows.length ks kprev i r := by
  induction rows generalizing kprev ks with
  | nil => cases ks <;> simp [TriSat]
  | cons r rs ih =>
    cases rs with
    | nil =>
      match ks with
      | [] => simp [TriSat]
      | [k] =>
        simp only [TriSat, List.length_singleton, true_and]
        constructor
        · intro h i r' hr'
          cases i with
          | zero =>
            simp only [List.getElem?_cons_zero, Option.some.injEq] at hr'
            subst hr'
            simp [rowHolds, h]
          | succ i => simp at hr'
        · intro h
          have := h 0 r (by simp)
          simpa [rowHolds] using this
      | k :: k' :: ks' => simp [TriSat]
    | cons r2 rs' =>
      match ks with
      | [] => simp [TriSat]
      | [k] => simp [TriSat]
      | k :: k' :: ks' =>
        simp only [TriSat]
        rw [ih k (k' :: ks')]
        simp only [List.length_cons, Nat.add_right_cancel_iff]
        constructor
        · rintro ⟨h0, hl, ht⟩
          refine ⟨hl, ?_⟩
          intro i r' hr'
          cases i with
          | zero =>
            simp only [List.getElem?_cons_zero, Option.some.injEq] at hr'
            subst hr'
            simp only [rowHolds, if_true, List.getD_cons_zero, List.length_cons, zero_add,
              List.getD_cons_succ]
            rw [if_pos (by omega)]
            exact h0
          | succ i =>
            simp only [List.getElem?_cons_succ] at hr'
            have := ht i r' hr'
            simp only [rowHolds, List.length_cons] at this ⊢
            simp only [Nat.add_eq_zero_iff, one_ne_zero, and_false, if_false, Nat.add_sub_cancel,
              List.getD_cons_succ]
            cases i with
            | zero =>
              simp only [if_true, List.getD_cons_zero, zero_add] at this ⊢
              convert this using 3 <;> first | rfl | simp
            | succ j =>
              simp only [Nat.add_eq_zero_iff, one_ne_zero, and_false, if_false,
                Nat.add_sub_cancel, List.getD_cons_succ] at this ⊢
              convert this using 3 <;> first | rfl | simp
        · rintro ⟨hl, ht⟩
          refine ⟨?_, hl, ?_⟩
          · have := ht 0 r (by simp)
            simp only [rowHolds, if_true, List.getD_cons_zero, List.length_cons, zero_add,
              List.getD_cons_succ] at this
            rw [if_pos (by omega)] at this
            exact this
          · intro i r' hr'
            have := ht (i + 1) r' (by simpa using hr')
            simp only [rowHolds, List.length_cons] at this ⊢
            simp only [Nat.add_eq_zero_iff, one_ne_zero, and_false, if_false, Nat.add_sub_cancel,
              List.getD_cons_succ] at this
            cases i with
            | zero =>
              simp only [if_true, List.getD_cons_zero, zero_add] at this ⊢
              convert this using 3 <;> first | rfl | simp
            | succ j =>
              simp only [Nat.add_eq_zero_iff, one_ne_zero, and_false, if_false,
                Nat.add_sub_cancel, List.getD_cons_succ] at this ⊢
              convert this using 3 <;> first | rfl | simp

/-- the whole system in index form: the first row has no `lo` term -/
def RowsSat (rows : List (Row F F)) (ks : List F) : Prop :=
  ks.length = rows.length ∧
    ∀ i r, rows[i]? = some r →
      (if i = 0 then 0 else r.lo * ks.getD (i - 1) 0) + r.mid * ks.getD i 0 +
        (if i + 1 < rows.length then r.up * ks.getD (i + 1) 0 else 0) = r.rhs

theorem fullSat_iff_rowsSat (rows : List (Row F F)) (ks : List F) :
    FullSat rows ks ↔ RowsSat rows ks := by
  match rows, ks with
  | [], [] => simp [FullSat, RowsSat]
  | [], _ :: _ => simp [FullSat, RowsSat]
  | _ :: _, [] => simp [FullSat, RowsSat]
  | [r], [k] =>
    simp only [FullSat, RowsSat, List.length_singleton, true_and]
    constructor
    · intro h i r' hr'
      cases i with
      | zero =>
        simp only [List.getElem?_cons_zero, Option.some.injEq] at hr'
        subst hr'
        simp [h]
      | succ i => simp at hr'
    · intro h
      have := h 0 r (by simp)
      simpa using this
  | [r], _ :: _ :: _ => simp [FullSat, TriSat, RowsSat]
  | r :: r2 :: rs, [k] => simp [FullSat, RowsSat]
  | r :: r2 :: rs, k :: k' :: ks =>
    simp only [FullSat, RowsSat]
    rw [triSat_iff]
    simp only [List.length_cons, Nat.add_right_cancel_iff]
    constructor
    · rintro ⟨h0, hl, ht⟩
      refine ⟨hl, ?_⟩
      intro i r' hr'
      cases i with
      | zero =>
        simp only [List.getElem?_cons_zero, Option.some.injEq] at hr'
        subst hr'
        simp only [if_true, List.getD_cons_zero, zero_add, List.getD_cons_succ]
        rw [if_pos (by omega)]
        exact h0
      | succ i =>
        simp only [List.getElem?_cons_succ] at hr'
        have := ht i r' hr'
        simp only [rowHolds, List.length_cons] at this
        simp only [Nat.add_eq_zero_iff, one_ne_zero, and_false, if_false, Nat.add_sub_cancel,
          List.getD_cons_succ]
        cases i with
        | zero =>
          simp only [if_true, List.getD_cons_zero, zero_add] at this ⊢
          convert this using 3 <;> first | rfl | simp
        | succ j =>
          simp only [Nat.add_eq_zero_iff, one_ne_zero, and_false, if_false,
            Nat.add_sub_cancel, List.getD_cons_succ] at this ⊢
          convert this using 3 <;> first | rfl | simp
    · rintro ⟨hl, ht⟩
      refine ⟨?_, hl, ?_⟩
      · have := ht 0 r (by simp)
        simp only [if_true, List.getD_cons_zero, zero_add, List.getD_cons_succ] at this
        rw [if_pos (by omega)] at this
        exact this
      · intro i r' hr'
        have := ht (i + 1) r' (by simpa using hr')
        simp only [rowHolds, List.length_cons]
        simp only [Nat.add_eq_zero_iff, one_ne_zero, and_false, if_false, Nat.add_sub_cancel,
          List.getD_cons_succ] at this
        cases i with
        | zero =>
          simp only [if_true, List.getD_cons_zero, zero_add] at this ⊢
          convert this using 3 <;> first | rfl | simp
        | succ j =>
          simp only [Nat.add_eq_zero_iff, one_ne_zero, and_false, if_false,
            Nat.add_sub_cancel, List.getD_cons_succ] at this ⊢
          convert this using 3 <;> first | rfl | simp

end NdInterp
