/-
Characterisation of the system rows in terms of the spline they define (single lane):
row `i` (interior) ⇔ the second derivative is continuous at knot `i`; first / last row ⇔ the
selected end condition.  Hence (with `solveForK_spec`) the slopes `solve_for_k` returns are the
unique ones whose piecewise cubic is C² and meets the end conditions.
-/
import NdInterp.Lemmas.SplineEval

namespace NdInterp

variable {F : Type} [Field F] [LinearOrder F] [IsStrictOrderedRing F]

/-- row equation of an interior knot -/
def interiorEq (x0 x1 x2 y0 y1 y2 k0 k1 k2 : F) : Prop :=
  (x2 - x1) * k0 + 2 * ((x2 - x1) + (x1 - x0)) * k1 + (x1 - x0) * k2 =
    3 * ((x2 - x1) * (y1 - y0) / (x1 - x0) + (x1 - x0) * (y2 - y1) / (x2 - x1))

/-- continuity of the second derivative at `x1` ⇔ interior row -/
theorem c2_iff_row (x0 x1 x2 y0 y1 y2 k0 k1 k2 : F) (h1 : x1 - x0 ≠ 0) (h2 : x2 - x1 ≠ 0) :
    (pieceCubic x0 x1 y0 y1 k0 k1).d2 x1 = (pieceCubic x1 x2 y1 y2 k1 k2).d2 x1 ↔
      interiorEq x0 x1 x2 y0 y1 y2 k0 k1 k2 := by
  rw [piece_d2_right _ _ _ _ _ _ h1, piece_d2_left _ _ _ _ _ _ h2]
  unfold interiorEq
  constructor
  · intro h; field_simp at h ⊢; linear_combination h
  · intro h; field_simp at h ⊢; linear_combination h

/-- `S''(x₀) = v` ⇔ SecondDeriv first row -/
theorem sd_left_iff (x0 x1 y0 y1 k0 k1 v : F) (h : x1 - x0 ≠ 0) :
    (pieceCubic x0 x1 y0 y1 k0 k1).d2 x0 = v ↔
      2 * (x1 - x0) * k0 + (x1 - x0) * k1 = 3 * (y1 - y0) - v * ((x1 - x0) * (x1 - x0)) / 2 := by
  rw [piece_d2_left _ _ _ _ _ _ h]
  constructor
  · intro hh; field_simp at hh ⊢; linear_combination -hh
  · intro hh; field_simp at hh ⊢; linear_combination -hh

/-- `S''(x_{n-1}) = v` ⇔ SecondDeriv last row -/
theorem sd_right_iff (x0 x1 y0 y1 k0 k1 v : F) (h : x1 - x0 ≠ 0) :
    (pieceCubic x0 x1 y0 y1 k0 k1).d2 x1 = v ↔
      (x1 - x0) * k0 + 2 * (x1 - x0) * k1 = 3 * (y1 - y0) + v * ((x1 - x0) * (x1 - x0)) / 2 := by
  rw [piece_d2_right _ _ _ _ _ _ h]
  constructor
  · intro hh; field_simp at hh ⊢; linear_combination hh
  · intro hh; field_simp at hh ⊢; linear_combination hh

/-- left NotAKnot row (as coded) -/
def nakLeftEq (x0 x1 x2 y0 y1 y2 k0 k1 : F) : Prop :=
  (x2 - x1) * k0 + (x2 - x0) * k1 =
    (((x1 - x0) + 2 * (x2 - x0)) * (x2 - x1) * (y1 - y0) / (x1 - x0) +
      (x1 - x0) * (x1 - x0) * (y2 - y1) / (x2 - x1)) / (x2 - x0)

/-- right NotAKnot row (as coded, after the repair): `x1 x2 x3` are the last three knots -/
def nakRightEq (x1 x2 x3 y1 y2 y3 k2 k3 : F) : Prop :=
  (x3 - x1) * k2 + (x2 - x1) * k3 =
    ((x3 - x2) * (x3 - x2) * (y2 - y1) / (x2 - x1) +
      (2 * (x3 - x1) + (x3 - x2)) * (x2 - x1) * (y3 - y2) / (x3 - x2)) / (x3 - x1)

/-- given the interior row of knot 1: equal third derivatives of pieces 0, 1 ⇔ left NotAKnot row -/
theorem nak_left_iff (x0 x1 x2 y0 y1 y2 k0 k1 k2 : F) (h0 : x1 - x0 ≠ 0) (h1 : x2 - x1 ≠ 0)
    (hd : x2 - x0 ≠ 0) (row1 : interiorEq x0 x1 x2 y0 y1 y2 k0 k1 k2) :
    (pieceCubic x0 x1 y0 y1 k0 k1).d3 = (pieceCubic x1 x2 y1 y2 k1 k2).d3 ↔
      nakLeftEq x0 x1 x2 y0 y1 y2 k0 k1 := by
  unfold interiorEq at row1
  unfold nakLeftEq pieceCubic Cubic.d3
  simp only
  have e0 : x2 - x0 = (x2 - x1) + (x1 - x0) := by ring
  rw [e0] at hd ⊢
  generalize x1 - x0 = a at *
  generalize x2 - x1 = b at *
  constructor
  · intro h
    field_simp at row1 h ⊢
    linear_combination h + a * row1
  · intro h
    field_simp at row1 h ⊢
    linear_combination h - a * row1

/-- mirror image for the right end -/
theorem nak_right_iff (x1 x2 x3 y1 y2 y3 k1 k2 k3 : F) (h0 : x2 - x1 ≠ 0) (h1 : x3 - x2 ≠ 0)
    (hd : x3 - x1 ≠ 0) (row2 : interiorEq x1 x2 x3 y1 y2 y3 k1 k2 k3) :
    (pieceCubic x1 x2 y1 y2 k1 k2).d3 = (pieceCubic x2 x3 y2 y3 k2 k3).d3 ↔
      nakRightEq x1 x2 x3 y1 y2 y3 k2 k3 := by
  unfold interiorEq at row2
  unfold nakRightEq pieceCubic Cubic.d3
  simp only
  have e0 : x3 - x1 = (x3 - x2) + (x2 - x1) := by ring
  rw [e0] at hd ⊢
  generalize x2 - x1 = a at *
  generalize x3 - x2 = b at *
  constructor
  · intro h
    field_simp at row2 h ⊢
    linear_combination -h + b * row2
  · intro h
    field_simp at row2 h ⊢
    linear_combination -h + b * row2

/-! ### rows of the assembled system by index -/

section rows
variable [Cmp F]

theorem sysRows_general (xs ys : List F) (hl : ys.length = xs.length) (hn : 3 ≤ xs.length)
    (left right : SingleBoundary F) (hpar : ¬ (xs.length = 3 ∧ isNakPair left right = true)) :
    ∃ f l, firstRow (endsOf xs ys hl hn) left.specialize = some f ∧
      lastRow (endsOf xs ys hl hn) right.specialize = some l ∧
      sysRows xs ys hl hn left right = f :: interiorRows xs ys ++ [l] := by
  obtain ⟨f, hf⟩ := firstRow_some (endsOf xs ys hl hn) left
  obtain ⟨l, hlr⟩ := lastRow_some (endsOf xs ys hl hn) right
  refine ⟨f, l, hf, hlr, ?_⟩
  unfold sysRows
  rw [if_neg hpar, hf, hlr]

/-- index form of `RowsSat` for `f :: I ++ [l]` with `I` of length `n - 2` -/
theorem rowsSat_split (f l : Row F F) (I : List (Row F F)) (ks : List F) (n : Nat) (hn : 3 ≤ n)
    (hI : I.length = n - 2) (hk : ks.length = n) :
    RowsSat (f :: I ++ [l]) ks ↔
      (f.mid * ks[0]'(by omega) + f.up * ks[1]'(by omega) = f.rhs) ∧
      (∀ i (h1 : 1 ≤ i) (h2 : i + 1 < n), ∃ r, I[i - 1]? = some r ∧
        r.lo * ks[i - 1]'(by omega) + r.mid * ks[i]'(by omega) + r.up * ks[i + 1]'(by omega) = r.rhs) ∧
      (l.lo * ks[n - 2]'(by omega) + l.mid * ks[n - 1]'(by omega) = l.rhs) := by
  have hlen : (f :: I ++ [l]).length = n := by simp [hI]; omega
  have gd : ∀ j (hj : j < n), ks.getD j 0 = ks[j]'(by omega) := by
    intro j hj; rw [List.getD_eq_getElem?_getD, List.getElem?_eq_getElem (by omega)]; rfl
  unfold RowsSat
  rw [hlen]
  constructor
  · rintro ⟨_, h⟩
    refine ⟨?_, ?_, ?_⟩
    · have := h 0 f (by simp)
      simp only [if_true, zero_add] at this
      rw [if_pos (by omega), gd 0 (by omega), gd 1 (by omega)] at this
      exact this
    · intro i h1 h2
      have hi : i - 1 < I.length := by omega
      refine ⟨I[i - 1], by simp [hi], ?_⟩
      have hget : (f :: I ++ [l])[i]? = some I[i - 1] := by
        obtain ⟨j, rfl⟩ : ∃ j, i = j + 1 := ⟨i - 1, by omega⟩
        simp only [List.cons_append, List.getElem?_cons_succ, Nat.add_sub_cancel]
        rw [List.getElem?_append_left (by simpa using hi)]
        simp [show j < I.length by simpa using hi]
      have := h i _ hget
      rw [if_neg (by omega), if_pos (by omega), gd (i - 1) (by omega), gd i (by omega),
        gd (i + 1) (by omega)] at this
      exact this
    · have hget : (f :: I ++ [l])[n - 1]? = some l := by
        obtain ⟨j, hj⟩ : ∃ j, n - 1 = j + 1 := ⟨n - 2, by omega⟩
        rw [hj]
        simp only [List.cons_append, List.getElem?_cons_succ]
        rw [List.getElem?_append_right (by omega)]
        have : j - I.length = 0 := by omega
        simp [this]
      have := h (n - 1) l hget
      rw [if_neg (by omega), if_neg (by omega), gd (n - 1 - 1) (by omega), gd (n - 1) (by omega)] at this
      have e : n - 1 - 1 = n - 2 := by omega
      simp only [e, add_zero] at this
      exact this
  · rintro ⟨h0, hi, hlast⟩
    refine ⟨hk, ?_⟩
    intro i r hr
    rcases Nat.eq_zero_or_pos i with rfl | hpos
    · simp only [List.cons_append, List.getElem?_cons_zero, Option.some.injEq] at hr
      subst hr
      simp only [if_true, zero_add]
      rw [if_pos (by omega), gd 0 (by omega), gd 1 (by omega)]
      exact h0
    · by_cases hlt : i + 1 < n
      · obtain ⟨r', hr', e⟩ := hi i hpos hlt
        have hi' : i - 1 < I.length := by omega
        have hget : (f :: I ++ [l])[i]? = I[i - 1]? := by
          obtain ⟨j, rfl⟩ : ∃ j, i = j + 1 := ⟨i - 1, by omega⟩
          simp only [List.cons_append, List.getElem?_cons_succ, Nat.add_sub_cancel]
          rw [List.getElem?_append_left (by simpa using hi')]
        rw [hget, hr'] at hr
        have : r' = r := Option.some.inj hr
        subst this
        rw [if_neg (by omega), if_pos hlt, gd (i - 1) (by omega), gd i (by omega), gd (i + 1) (by omega)]
        exact e
      · have hin : i < n := by
          by_contra hcon
          have : (f :: I ++ [l])[i]? = none := by
            rw [List.getElem?_eq_none]; omega
          rw [this] at hr; simp at hr
        have hi_eq : i = n - 1 := by omega
        subst hi_eq
        have hget : (f :: I ++ [l])[n - 1]? = some l := by
          obtain ⟨j, hj⟩ : ∃ j, n - 1 = j + 1 := ⟨n - 2, by omega⟩
          rw [hj]
          simp only [List.cons_append, List.getElem?_cons_succ]
          rw [List.getElem?_append_right (by omega)]
          have : j - I.length = 0 := by omega
          simp [this]
        rw [hget] at hr
        have : l = r := Option.some.inj hr
        subst this
        rw [if_neg (by omega), if_neg (by omega), gd (n - 1 - 1) (by omega), gd (n - 1) (by omega)]
        have e : n - 1 - 1 = n - 2 := by omega
        simp only [e, add_zero]
        exact hlast

end rows

/-! ### the conditions of C02 / C03 on a family of slopes -/

section conds
variable (xs ys ks : List F) (hy : ys.length = xs.length) (hk : ks.length = xs.length)

/-- piece between knots `i`, `j` (`j = i + 1` in every use) -/
def pc (i j : Nat) (hi : i < xs.length) (hj : j < xs.length) : Cubic F :=
  pieceCubic xs[i] xs[j] (ys[i]'(by omega)) (ys[j]'(by omega)) (ks[i]'(by omega)) (ks[j]'(by omega))

/-- continuous second derivative at every interior knot -/
def C2Cond : Prop :=
  ∀ j (h : j + 2 < xs.length),
    (pc xs ys ks hy hk j (j + 1) (by omega) (by omega)).d2 xs[j + 1] =
      (pc xs ys ks hy hk (j + 1) (j + 2) (by omega) h).d2 xs[j + 1]

/-- the selected condition at the left end -/
def LeftCond (hn : 3 ≤ xs.length) (b : SingleBoundary F) : Prop :=
  match b.specialize with
  | .firstDeriv v => (pc xs ys ks hy hk 0 1 (by omega) (by omega)).d1 xs[0] = v
  | .secondDeriv v => (pc xs ys ks hy hk 0 1 (by omega) (by omega)).d2 xs[0] = v
  | .notAKnot => (pc xs ys ks hy hk 0 1 (by omega) (by omega)).d3 =
      (pc xs ys ks hy hk 1 2 (by omega) (by omega)).d3
  | _ => False

/-- the selected condition at the right end -/
def RightCond (hn : 3 ≤ xs.length) (b : SingleBoundary F) : Prop :=
  match b.specialize with
  | .firstDeriv v =>
    (pc xs ys ks hy hk (xs.length - 2) (xs.length - 1) (by omega) (by omega)).d1 xs[xs.length - 1] = v
  | .secondDeriv v =>
    (pc xs ys ks hy hk (xs.length - 2) (xs.length - 1) (by omega) (by omega)).d2 xs[xs.length - 1] = v
  | .notAKnot =>
    (pc xs ys ks hy hk (xs.length - 3) (xs.length - 2) (by omega) (by omega)).d3 =
      (pc xs ys ks hy hk (xs.length - 2) (xs.length - 1) (by omega) (by omega)).d3
  | _ => False

end conds

section char
variable [Cmp F]

/-- **characterisation of the system** (general case): the rows hold iff the spline is C² at
    every interior knot and satisfies the selected end conditions. -/
theorem spline_char (xs ys ks : List F) (hy : ys.length = xs.length) (hk : ks.length = xs.length)
    (hn : 3 ≤ xs.length) (hs : StrictInc xs) (left right : SingleBoundary F)
    (hpar : ¬ (xs.length = 3 ∧ isNakPair left right = true)) :
    RowsSat (sysRows xs ys hy hn left right) ks ↔
      C2Cond xs ys ks hy hk ∧ LeftCond xs ys ks hy hk hn left ∧ RightCond xs ys ks hy hk hn right := by
  obtain ⟨f, l, hf, hl, hrows⟩ := sysRows_general xs ys hy hn left right hpar
  rw [hrows, rowsSat_split f l (interiorRows xs ys) ks xs.length hn (interiorRows_length xs ys hy) hk]
  have hne : ∀ i j (hij : i < j) (hj : j < xs.length), xs[j] - xs[i]'(by omega) ≠ 0 :=
    fun i j hij hj => ne_of_gt (sub_pos.mpr (hs.2 i j hij hj))
  -- interior rows ⇔ C2
  have hint : (∀ i (h1 : 1 ≤ i) (h2 : i + 1 < xs.length), ∃ r, (interiorRows xs ys)[i - 1]? = some r ∧
        r.lo * ks[i - 1]'(by omega) + r.mid * ks[i]'(by omega) + r.up * ks[i + 1]'(by omega) = r.rhs) ↔
      (∀ j (h : j + 2 < xs.length), interiorEq xs[j] xs[j + 1] xs[j + 2] (ys[j]'(by omega))
        (ys[j + 1]'(by omega)) (ys[j + 2]'(by omega)) (ks[j]'(by omega)) (ks[j + 1]'(by omega))
        (ks[j + 2]'(by omega))) := by
    constructor
    · intro h j hj
      obtain ⟨r, hr, e⟩ := h (j + 1) (by omega) (by omega)
      simp only [Nat.add_sub_cancel] at hr e
      rw [interiorRows_get xs ys hy j hj] at hr
      have := Option.some.inj hr
      subst this
      simpa [interiorRow, interiorEq] using e
    · intro h i h1 h2
      obtain ⟨j, rfl⟩ : ∃ j, i = j + 1 := ⟨i - 1, by omega⟩
      have hj : j + 2 < xs.length := by omega
      refine ⟨_, by simp only [Nat.add_sub_cancel]; exact interiorRows_get xs ys hy j hj, ?_⟩
      have := h j hj
      simpa [interiorRow, interiorEq] using this
  have hc2 : C2Cond xs ys ks hy hk ↔
      (∀ j (h : j + 2 < xs.length), interiorEq xs[j] xs[j + 1] xs[j + 2] (ys[j]'(by omega))
        (ys[j + 1]'(by omega)) (ys[j + 2]'(by omega)) (ks[j]'(by omega)) (ks[j + 1]'(by omega))
        (ks[j + 2]'(by omega))) := by
    unfold C2Cond pc
    constructor
    · intro h j hj
      exact (c2_iff_row _ _ _ _ _ _ _ _ _ (hne j (j + 1) (by omega) (by omega))
        (hne (j + 1) (j + 2) (by omega) hj)).mp (h j hj)
    · intro h j hj
      exact (c2_iff_row _ _ _ _ _ _ _ _ _ (hne j (j + 1) (by omega) (by omega))
        (hne (j + 1) (j + 2) (by omega) hj)).mpr (h j hj)
  rw [hint, ← hc2]
  -- reduce to: (first row ⇔ left condition) and (last row ⇔ right condition), given C2
  suffices hends : C2Cond xs ys ks hy hk →
      ((f.mid * ks[0]'(by omega) + f.up * ks[1]'(by omega) = f.rhs) ↔ LeftCond xs ys ks hy hk hn left) ∧
      ((l.lo * ks[xs.length - 2]'(by omega) + l.mid * ks[xs.length - 1]'(by omega) = l.rhs) ↔
        RightCond xs ys ks hy hk hn right) by
    constructor
    · rintro ⟨a, b, c⟩; exact ⟨b, (hends b).1.mp a, (hends b).2.mp c⟩
    · rintro ⟨b, a, c⟩; exact ⟨(hends b).1.mpr a, b, (hends b).2.mpr c⟩
  intro hC2
  have row1 := (hc2.mp hC2) 0 (by omega)
  have rowL := (hc2.mp hC2) (xs.length - 3) (by omega)
  constructor
  · -- left end
    cases left with
    | firstDeriv v =>
      simp only [SingleBoundary.specialize, firstRow, Option.some.injEq] at hf
      subst hf
      simp only [LeftCond, SingleBoundary.specialize, pc, piece_d1_left, const_scalar, c0_eq, c1_eq]
      simp
    | clamped =>
      simp only [SingleBoundary.specialize, firstRow, Option.some.injEq] at hf
      subst hf
      simp only [LeftCond, SingleBoundary.specialize, pc, piece_d1_left, const_scalar, c0_eq, c1_eq]
      simp
    | secondDeriv v =>
      simp only [SingleBoundary.specialize, firstRow, Option.some.injEq] at hf
      subst hf
      simp only [LeftCond, SingleBoundary.specialize, pc, map2_scalar, c2_eq, c3_eq, sq,
        endsOf, Ends.dx0]
      rw [sd_left_iff _ _ _ _ _ _ _ (hne 0 1 (by omega) (by omega))]
    | natural =>
      simp only [SingleBoundary.specialize, firstRow, Option.some.injEq] at hf
      subst hf
      simp only [LeftCond, SingleBoundary.specialize, pc, map2_scalar, c2_eq, c3_eq, sq,
        endsOf, Ends.dx0]
      rw [sd_left_iff _ _ _ _ _ _ _ (hne 0 1 (by omega) (by omega))]
    | notAKnot =>
      simp only [SingleBoundary.specialize, firstRow, Option.some.injEq] at hf
      subst hf
      simp only [LeftCond, SingleBoundary.specialize, pc, map3_scalar, c2_eq, sq,
        endsOf, Ends.dx0, Ends.dx1]
      rw [nak_left_iff _ _ _ _ _ _ _ _ _ (hne 0 1 (by omega) (by omega)) (hne 1 2 (by omega) (by omega))
        (hne 0 2 (by omega) (by omega)) row1]
      rfl
  · -- right end
    have e1 : xs.length - 3 + 1 = xs.length - 2 := by omega
    have e2 : xs.length - 3 + 2 = xs.length - 1 := by omega
    cases right with
    | firstDeriv v =>
      simp only [SingleBoundary.specialize, lastRow, Option.some.injEq] at hl
      subst hl
      simp only [RightCond, SingleBoundary.specialize, pc, const_scalar, c0_eq, c1_eq]
      rw [piece_d1_right _ _ _ _ _ _ (hne (xs.length - 2) (xs.length - 1) (by omega) (by omega))]
      simp
    | clamped =>
      simp only [SingleBoundary.specialize, lastRow, Option.some.injEq] at hl
      subst hl
      simp only [RightCond, SingleBoundary.specialize, pc, const_scalar, c0_eq, c1_eq]
      rw [piece_d1_right _ _ _ _ _ _ (hne (xs.length - 2) (xs.length - 1) (by omega) (by omega))]
      simp
    | secondDeriv v =>
      simp only [SingleBoundary.specialize, lastRow, Option.some.injEq] at hl
      subst hl
      simp only [RightCond, SingleBoundary.specialize, pc, map2_scalar, c2_eq, c3_eq, sq,
        endsOf, Ends.dxl1]
      rw [sd_right_iff _ _ _ _ _ _ _ (hne (xs.length - 2) (xs.length - 1) (by omega) (by omega))]
    | natural =>
      simp only [SingleBoundary.specialize, lastRow, Option.some.injEq] at hl
      subst hl
      simp only [RightCond, SingleBoundary.specialize, pc, map2_scalar, c2_eq, c3_eq, sq,
        endsOf, Ends.dxl1]
      rw [sd_right_iff _ _ _ _ _ _ _ (hne (xs.length - 2) (xs.length - 1) (by omega) (by omega))]
    | notAKnot =>
      simp only [SingleBoundary.specialize, lastRow, Option.some.injEq] at hl
      subst hl
      simp only [RightCond, SingleBoundary.specialize, pc, map3_scalar, c2_eq, sq,
        endsOf, Ends.dxl1, Ends.dxl2]
      simp only [e1, e2] at rowL
      rw [nak_right_iff _ _ _ _ _ _ _ _ _ (hne (xs.length - 3) (xs.length - 2) (by omega) (by omega))
        (hne (xs.length - 2) (xs.length - 1) (by omega) (by omega))
        (hne (xs.length - 3) (xs.length - 1) (by omega) (by omega)) rowL]
      rfl

end char

end NdInterp
