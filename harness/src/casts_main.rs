//! C19: every instantiation of the rank-1 fast path: hook records, type names, fast vs general
#[path = "casts.rs"]
mod casts;

fn main() {
    // panics of the crate under test are outcomes, not noise
    std::panic::set_hook(Box::new(|_| {}));
    let args: Vec<String> = std::env::args().collect();
    let _ = args;
    casts::main();
}
