//! Line protocol shared with the Lean driver (see /verif/lean/Driver.lean and DESIGN.md §3):
//! tokeniser, scalar I/O, array construction with a requested memory layout.

use ndarray::{ArrayD, ArrayViewD, ArrayViewMutD, Axis, IxDyn, ShapeBuilder, Slice};
use ndarray_interp::interp1d::cubic_spline::SplineNum;

use crate::q::Q;
use crate::z::Z;
use crate::z32::Z32;

pub struct Toks<'a> {
    it: std::str::SplitWhitespace<'a>,
}

impl<'a> Toks<'a> {
    pub fn new(s: &'a str) -> Self {
        Toks {
            it: s.split_whitespace(),
        }
    }
    pub fn next(&mut self) -> Result<&'a str, String> {
        self.it.next().ok_or_else(|| "unexpected end of line".to_string())
    }
    pub fn nat(&mut self) -> Result<usize, String> {
        let t = self.next()?;
        t.parse::<usize>().map_err(|_| format!("expected nat, got {t}"))
    }
    pub fn boolean(&mut self) -> Result<bool, String> {
        match self.next()? {
            "0" => Ok(false),
            "1" => Ok(true),
            t => Err(format!("expected 0/1, got {t}")),
        }
    }
    pub fn shape(&mut self) -> Result<Vec<usize>, String> {
        let r = self.nat()?;
        (0..r).map(|_| self.nat()).collect()
    }
    pub fn done(&mut self) -> bool {
        self.it.next().is_none()
    }
}

/// element types the real crate is run at
pub trait Scalar: SplineNum + PartialEq + 'static {
    const TAG: &'static str;
    fn parse(s: &str) -> Option<Self>;
    fn show(self) -> String;
    /// a value no computation of the crate produces (fills buffers before a call)
    fn poison() -> Self;
    fn is_poison(self) -> bool;
    /// a second junk value for storage outside views
    fn junk() -> Self;
    /// inverse of the `Debug` formatting the crate uses in its error messages
    fn parse_debug(s: &str) -> Option<Self>;
    /// `show`, with every NaN printed alike
    fn show_canon(self) -> String {
        self.show()
    }
}

impl Scalar for Q {
    const TAG: &'static str = "Q";
    fn parse(s: &str) -> Option<Self> {
        Q::parse(s)
    }
    fn show(self) -> String {
        self.to_string()
    }
    fn poison() -> Self {
        Q::from_ratio(-987_654_321_987, 1_234_567_891)
    }
    fn is_poison(self) -> bool {
        self == Self::poison()
    }
    fn junk() -> Self {
        Q::from_ratio(-123_456_789_123, 9_876_543_211)
    }
    fn parse_debug(s: &str) -> Option<Self> {
        Q::parse(s)
    }
}

impl Scalar for Z {
    const TAG: &'static str = "I";
    fn parse(s: &str) -> Option<Self> {
        s.parse::<i64>().ok().map(Z)
    }
    fn show(self) -> String {
        self.0.to_string()
    }
    fn poison() -> Self {
        Z(-987_654_321_987)
    }
    fn is_poison(self) -> bool {
        self == Self::poison()
    }
    fn junk() -> Self {
        Z(-123_456_789_123)
    }
    fn parse_debug(s: &str) -> Option<Self> {
        s.parse::<i64>().ok().map(Z)
    }
}

impl Scalar for Z32 {
    const TAG: &'static str = "J";
    fn parse(s: &str) -> Option<Self> {
        s.parse::<i32>().ok().map(Z32)
    }
    fn show(self) -> String {
        self.0.to_string()
    }
    fn poison() -> Self {
        Z32(-987_654_321)
    }
    fn is_poison(self) -> bool {
        self == Self::poison()
    }
    fn junk() -> Self {
        Z32(-123_456_789)
    }
    fn parse_debug(s: &str) -> Option<Self> {
        s.parse::<i32>().ok().map(Z32)
    }
}

const POISON32_BITS: u32 = 0x7fc0_dea1;
const JUNK32_BITS: u32 = 0x7fc0_0bad;

impl Scalar for f32 {
    const TAG: &'static str = "G";
    fn parse(s: &str) -> Option<Self> {
        if s.len() != 8 {
            return None;
        }
        u32::from_str_radix(s, 16).ok().map(f32::from_bits)
    }
    fn show(self) -> String {
        format!("{:08x}", self.to_bits())
    }
    fn poison() -> Self {
        f32::from_bits(POISON32_BITS)
    }
    fn is_poison(self) -> bool {
        self.to_bits() == POISON32_BITS
    }
    fn junk() -> Self {
        f32::from_bits(JUNK32_BITS)
    }
    fn parse_debug(s: &str) -> Option<Self> {
        s.parse::<f32>().ok()
    }
    fn show_canon(self) -> String {
        if self.is_nan() {
            "nan".into()
        } else {
            self.show()
        }
    }
}

const POISON_BITS: u64 = 0x7ff8_dead_beef_0001;
const JUNK_BITS: u64 = 0x7ff8_0bad_f00d_0002;

impl Scalar for f64 {
    const TAG: &'static str = "F";
    fn parse(s: &str) -> Option<Self> {
        if s.len() != 16 {
            return None;
        }
        u64::from_str_radix(s, 16).ok().map(f64::from_bits)
    }
    fn show(self) -> String {
        format!("{:016x}", self.to_bits())
    }
    fn poison() -> Self {
        f64::from_bits(POISON_BITS)
    }
    fn is_poison(self) -> bool {
        self.to_bits() == POISON_BITS
    }
    fn junk() -> Self {
        f64::from_bits(JUNK_BITS)
    }
    fn parse_debug(s: &str) -> Option<Self> {
        s.parse::<f64>().ok()
    }
    fn show_canon(self) -> String {
        if self.is_nan() {
            "nan".into()
        } else {
            self.show()
        }
    }
}

#[derive(Clone, Copy, Debug, PartialEq)]
pub enum Lay {
    /// owned, C order
    C,
    /// owned, Fortran order
    F,
    /// every k-th index along axis 0 of a larger array
    Strided(usize),
    /// axis 0 stored in reverse, viewed through a negative stride
    Rev,
    /// last two axes stored swapped
    Perm,
    /// window into a larger array (one extra element on both sides of every axis)
    Window,
    /// last axis stored in reverse (negative stride on the innermost axis; contiguous, not standard layout)
    RevLast,
    /// every axis stored in reverse (all strides negative; contiguous in memory)
    Neg,
    /// a single stored element broadcast to the shape (all strides 0); only for arrays whose elements are all equal
    Bcast,
}

impl Lay {
    pub fn parse(s: &str) -> Result<Lay, String> {
        Ok(match s {
            "c" => Lay::C,
            "f" => Lay::F,
            "rev" => Lay::Rev,
            "perm" => Lay::Perm,
            "w" => Lay::Window,
            "revl" => Lay::RevLast,
            "neg" => Lay::Neg,
            "bc" => Lay::Bcast,
            _ if s.starts_with('s') => {
                Lay::Strided(s[1..].parse().map_err(|_| format!("bad layout {s}"))?)
            }
            _ => return Err(format!("bad layout {s}")),
        })
    }
    pub fn is_owned(self) -> bool {
        matches!(self, Lay::C | Lay::F)
    }
}

/// an array with given logical contents stored with a requested layout
pub struct Stored<T> {
    pub lay: Lay,
    pub shape: Vec<usize>,
    pub base: ArrayD<T>,
}

impl<T: Scalar> Stored<T> {
    /// `flat` in logical (row-major) order; storage outside the view holds `fill`
    pub fn new(lay: Lay, shape: &[usize], flat: Vec<T>, fill: T) -> Result<Self, String> {
        if lay == Lay::Bcast && !flat.is_empty() && flat.iter().all(|v| v.show() == flat[0].show()) {
            return Ok(Stored {
                lay,
                shape: shape.to_vec(),
                base: ArrayD::from_elem(IxDyn(&vec![1; shape.len()]), flat[0]),
            });
        }
        let lay = if lay == Lay::Bcast { Lay::C } else { lay };
        let logical = ArrayD::from_shape_vec(IxDyn(shape), flat)
            .map_err(|e| format!("contents do not match shape: {e}"))?;
        let mut s = Self::filled(lay, shape, fill);
        s.view_mut().assign(&logical);
        Ok(s)
    }

    /// storage for the layout, everything (inside and outside the view) set to `fill`
    pub fn filled(lay: Lay, shape: &[usize], fill: T) -> Self {
        let r = shape.len();
        let lay = match lay {
            Lay::Bcast => Lay::C,
            Lay::Strided(_) | Lay::Rev | Lay::RevLast | Lay::Neg if r == 0 => Lay::C,
            Lay::Perm if r < 2 => Lay::C,
            l => l,
        };
        let base = match lay {
            Lay::C | Lay::Rev | Lay::RevLast | Lay::Neg | Lay::Bcast => ArrayD::from_elem(IxDyn(shape), fill),
            Lay::F => ArrayD::from_elem(IxDyn(shape).f(), fill),
            Lay::Strided(k) => {
                let mut s = shape.to_vec();
                s[0] *= k.max(1);
                ArrayD::from_elem(IxDyn(&s), fill)
            }
            Lay::Perm => {
                let mut s = shape.to_vec();
                s.swap(r - 1, r - 2);
                ArrayD::from_elem(IxDyn(&s), fill)
            }
            Lay::Window => {
                let s: Vec<usize> = shape.iter().map(|d| d + 2).collect();
                ArrayD::from_elem(IxDyn(&s), fill)
            }
        };
        Stored {
            lay,
            shape: shape.to_vec(),
            base,
        }
    }

    pub fn view(&self) -> ArrayViewD<'_, T> {
        let r = self.shape.len();
        if self.lay == Lay::Bcast {
            return self.base.broadcast(IxDyn(&self.shape)).expect("broadcast of a one-element array");
        }
        let mut v = self.base.view();
        match self.lay {
            Lay::C | Lay::F | Lay::Bcast => {}
            Lay::Strided(k) => v.slice_axis_inplace(Axis(0), Slice::new(0, None, k.max(1) as isize)),
            Lay::Rev => v.invert_axis(Axis(0)),
            Lay::RevLast => v.invert_axis(Axis(r - 1)),
            Lay::Neg => {
                for ax in 0..r {
                    v.invert_axis(Axis(ax));
                }
            }
            Lay::Perm => v.swap_axes(r - 1, r - 2),
            Lay::Window => {
                for ax in 0..r {
                    v.slice_axis_inplace(Axis(ax), Slice::new(1, Some(-1), 1));
                }
            }
        }
        debug_assert_eq!(v.shape(), &self.shape[..]);
        v
    }

    pub fn view_mut(&mut self) -> ArrayViewMutD<'_, T> {
        let r = self.shape.len();
        let mut v = self.base.view_mut();
        match self.lay {
            Lay::C | Lay::F | Lay::Bcast => {}
            Lay::Strided(k) => v.slice_axis_inplace(Axis(0), Slice::new(0, None, k.max(1) as isize)),
            Lay::Rev => v.invert_axis(Axis(0)),
            Lay::RevLast => v.invert_axis(Axis(r - 1)),
            Lay::Neg => {
                for ax in 0..r {
                    v.invert_axis(Axis(ax));
                }
            }
            Lay::Perm => v.swap_axes(r - 1, r - 2),
            Lay::Window => {
                for ax in 0..r {
                    v.slice_axis_inplace(Axis(ax), Slice::new(1, Some(-1), 1));
                }
            }
        }
        v
    }

    /// (poison left inside the view, non-poison outside the view)
    pub fn poison_report(&self) -> (usize, usize) {
        let inside_poison = self.view().iter().filter(|v| v.is_poison()).count();
        let inside_total = self.view().len();
        let base_clean = self.base.iter().filter(|v| !v.is_poison()).count();
        let inside_clean = inside_total - inside_poison;
        (inside_poison, base_clean - inside_clean)
    }
}

pub fn scalar<T: Scalar>(t: &mut Toks) -> Result<T, String> {
    let s = t.next()?;
    T::parse(s).ok_or_else(|| format!("bad scalar {s}"))
}

pub fn list<T: Scalar>(t: &mut Toks) -> Result<Vec<T>, String> {
    let n = t.nat()?;
    (0..n).map(|_| scalar::<T>(t)).collect()
}

/// `vec := lay n v1 .. vn`
pub fn vec1<T: Scalar>(t: &mut Toks) -> Result<Stored<T>, String> {
    let lay = Lay::parse(t.next()?)?;
    let v = list::<T>(t)?;
    Stored::new(lay, &[v.len()], v, T::junk())
}

/// `ndarr := lay shape n v1 .. vn`
pub fn ndarr<T: Scalar>(t: &mut Toks) -> Result<Stored<T>, String> {
    let lay = Lay::parse(t.next()?)?;
    let shape = t.shape()?;
    let v = list::<T>(t)?;
    Stored::new(lay, &shape, v, T::junk())
}

/// `buffer := lay shape`, completely poisoned
pub fn buffer<T: Scalar>(t: &mut Toks) -> Result<Stored<T>, String> {
    let lay = Lay::parse(t.next()?)?;
    let shape = t.shape()?;
    Ok(Stored::filled(lay, &shape, T::poison()))
}

pub fn fmt_shape(s: &[usize]) -> String {
    let mut out = s.len().to_string();
    for d in s {
        out.push(' ');
        out.push_str(&d.to_string());
    }
    out
}
