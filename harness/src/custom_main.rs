//! C18: recording / failing user-defined strategies
#[path = "custom.rs"]
mod custom;

fn main() {
    // panics of the crate under test are outcomes, not noise
    std::panic::set_hook(Box::new(|_| {}));
    let args: Vec<String> = std::env::args().collect();
    let seed = args.get(1).and_then(|s| s.parse::<u64>().ok()).unwrap_or(1);
    let n = args.get(2).and_then(|s| s.parse::<usize>().ok()).unwrap_or(300);
    custom::main(seed, n);
}
