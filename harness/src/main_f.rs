//! Verification harness for jonasBoss/ndarray-interp: runs the real crate (path dependency on
//! /repo, rebuilt from its working tree) on protocol cases — runner for the element type(s) f64 and f32.

#![allow(dead_code)]
mod bigint;
mod proto;
mod q;
mod run;
mod z;
mod z32;

use proto::Toks;

fn dispatch(s: &str, t: &mut Toks) -> Result<(bool, String), String> {
    match s {
        "F" => run::op::<f64>(t),
        "G" => run::op::<f32>(t),
        _ => Err(format!("scalar type {s} is not served by this runner")),
    }
}

fn main() {
    run::serve(dispatch);
}
