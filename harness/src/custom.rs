//! C18: custom strategies get validated inputs, correct targets, faithful accessors.
//!
//! Recording strategies (`Rec1`/`Rec2`) log every `build` and `interp_into` invocation they
//! receive from the crate, check the interpolator's accessors against the raw inputs they were
//! built from and can be told to fail at `build` or at the k-th `interp_into`.
//! An oracle that only looks at the inputs decides what must have been logged and returned.

use std::collections::BTreeMap;
use std::panic::{catch_unwind, AssertUnwindSafe};
use std::sync::{Arc, Mutex, MutexGuard};

use ndarray::{
    Array, Array1, Array2, ArrayBase, ArrayD, ArrayViewMut, Axis, Data, DimAdd, Dimension, Ix0, Ix1,
    Ix2, IxDyn, OwnedRepr, RemoveAxis, ShapeBuilder,
};
use ndarray_interp::interp1d::{
    Interp1D, Interp1DBuilder, Interp1DStrategy, Interp1DStrategyBuilder,
};
use ndarray_interp::interp2d::{
    Interp2D, Interp2DBuilder, Interp2DStrategy, Interp2DStrategyBuilder,
};
use ndarray_interp::{BuilderError, InterpolateError};

// ---------------------------------------------------------------------------------------------
// PRNG

/// splitmix64: the single source of randomness of this check
struct Rng(u64);

impl Rng {
    fn next(&mut self) -> u64 {
        self.0 = self.0.wrapping_add(0x9E37_79B9_7F4A_7C15);
        let mut z = self.0;
        z = (z ^ (z >> 30)).wrapping_mul(0xBF58_476D_1CE4_E5B9);
        z = (z ^ (z >> 27)).wrapping_mul(0x94D0_49BB_1331_11EB);
        z ^ (z >> 31)
    }
    fn below(&mut self, n: usize) -> usize {
        (self.next() % n as u64) as usize
    }
    /// inclusive range
    fn range(&mut self, lo: usize, hi: usize) -> usize {
        lo + self.below(hi - lo + 1)
    }
    fn unit(&mut self) -> f64 {
        (self.next() >> 11) as f64 / (1u64 << 53) as f64
    }
    fn uniform(&mut self, lo: f64, hi: f64) -> f64 {
        lo + (hi - lo) * self.unit()
    }
    fn chance(&mut self, p: f64) -> bool {
        self.unit() < p
    }
    /// quiet NaN with a random payload and sign: must travel through the crate bit-for-bit
    fn nan(&mut self) -> f64 {
        let r = self.next();
        f64::from_bits(0x7ff8_0000_0000_0000 | (r & 0x8007_ffff_ffff_ffff))
    }
}

// ---------------------------------------------------------------------------------------------
// what the recording strategies log

const BUILD_MSG: &str = "custom-build-failure";
const CALL_MSG: &str = "custom-fail";
const POISON: u64 = 0x7ff8_dead_beef_0002;

#[derive(Clone, Copy, PartialEq, Eq, Debug)]
enum FailBuild {
    NotEnoughData,
    Monotonic,
    ShapeError,
    ValueError,
}

impl FailBuild {
    fn error(self) -> BuilderError {
        match self {
            FailBuild::NotEnoughData => BuilderError::NotEnoughData(BUILD_MSG.into()),
            FailBuild::Monotonic => BuilderError::Monotonic(BUILD_MSG.into()),
            FailBuild::ShapeError => BuilderError::ShapeError(BUILD_MSG.into()),
            FailBuild::ValueError => BuilderError::ValueError(BUILD_MSG.into()),
        }
    }
    fn matches(self, e: &BuilderError) -> bool {
        let (same_variant, msg) = match (self, e) {
            (FailBuild::NotEnoughData, BuilderError::NotEnoughData(m)) => (true, m),
            (FailBuild::Monotonic, BuilderError::Monotonic(m)) => (true, m),
            (FailBuild::ShapeError, BuilderError::ShapeError(m)) => (true, m),
            (FailBuild::ValueError, BuilderError::ValueError(m)) => (true, m),
            _ => return false,
        };
        same_variant && msg == BUILD_MSG
    }
}

/// the arguments of one `build` invocation (`y` empty for 1-D strategies)
struct BuildRec {
    x: Vec<u64>,
    y: Vec<u64>,
    shape: Vec<usize>,
    data: Vec<u64>,
}

/// the arguments of one `interp_into` invocation (`qy` is 0 for 1-D strategies)
struct CallRec {
    index: usize,
    qx: u64,
    qy: u64,
    target: Vec<usize>,
}

#[derive(Default)]
struct Log {
    builds: Vec<BuildRec>,
    calls: Vec<CallRec>,
    /// accessor checks that failed inside `interp_into`
    accessor: Vec<String>,
}

type SharedLog = Arc<Mutex<Log>>;

fn lock(log: &SharedLog) -> MutexGuard<'_, Log> {
    log.lock().unwrap_or_else(|e| e.into_inner())
}

fn bits<'a>(values: impl IntoIterator<Item = &'a f64>) -> Vec<u64> {
    values.into_iter().map(|v| v.to_bits()).collect()
}

fn hex(b: &[u64]) -> String {
    b.iter()
        .map(|v| format!("{v:016x}"))
        .collect::<Vec<_>>()
        .join(",")
}

fn fmt_shape(shape: &[usize]) -> String {
    if shape.is_empty() {
        "scalar".into()
    } else {
        shape
            .iter()
            .map(|n| n.to_string())
            .collect::<Vec<_>>()
            .join("x")
    }
}

/// the recognisable value a strategy writes into lane `lane` of the target of call `call`
fn written(call: usize, lane: usize) -> f64 {
    ((call + 1) * 64 + lane) as f64 + 0.5
}

/// the index `get_index_left_of` must return for `q` on `axis` (bit patterns), if determined
fn check_left_index(name: &str, axis: &[u64], q: f64, idx: usize, out: &mut Vec<String>) {
    if q.is_nan() {
        return;
    }
    let at = |i: usize| f64::from_bits(axis[i]);
    let n = axis.len();
    let good = if q < at(0) {
        idx == 0
    } else if q > at(n - 1) {
        idx == n - 2
    } else {
        idx + 1 < n && at(idx) <= q && q <= at(idx + 1)
    };
    if !good {
        out.push(format!(
            "get_index_left_of:{name}:q={:016x}:returned={idx}:axis={}",
            q.to_bits(),
            hex(axis)
        ));
    }
}

fn check_in_range(name: &str, axis: &[u64], q: f64, got: bool, out: &mut Vec<String>) {
    let (lo, hi) = (f64::from_bits(axis[0]), f64::from_bits(axis[axis.len() - 1]));
    if got != (lo <= q && q <= hi) {
        out.push(format!(
            "is_in_range:{name}:q={:016x}:returned={got}:axis={}",
            q.to_bits(),
            hex(axis)
        ));
    }
}

// ---------------------------------------------------------------------------------------------
// 1-D recording strategy

struct Rec1<const MIN: usize> {
    log: SharedLog,
    fail_build: Option<FailBuild>,
    fail_at: Option<usize>,
}

struct Rec1Strat {
    log: SharedLog,
    fail_at: Option<usize>,
    x: Vec<u64>,
    shape: Vec<usize>,
    data: Vec<u64>,
}

impl<const MIN: usize, Sd, Sx, D> Interp1DStrategyBuilder<Sd, Sx, D> for Rec1<MIN>
where
    Sd: Data<Elem = f64>,
    Sx: Data<Elem = f64>,
    D: Dimension + RemoveAxis,
{
    const MINIMUM_DATA_LENGHT: usize = MIN;
    type FinishedStrat = Rec1Strat;

    fn build<Sx2>(
        self,
        x: &ArrayBase<Sx2, Ix1>,
        data: &ArrayBase<Sd, D>,
    ) -> Result<Self::FinishedStrat, BuilderError>
    where
        Sx2: Data<Elem = f64>,
    {
        let rec = BuildRec {
            x: bits(x),
            y: Vec::new(),
            shape: data.shape().to_vec(),
            data: bits(data),
        };
        let strat = Rec1Strat {
            log: self.log.clone(),
            fail_at: self.fail_at,
            x: rec.x.clone(),
            shape: rec.shape.clone(),
            data: rec.data.clone(),
        };
        lock(&self.log).builds.push(rec);
        match self.fail_build {
            Some(kind) => Err(kind.error()),
            None => Ok(strat),
        }
    }
}

impl<Sd, Sx, D> Interp1DStrategy<Sd, Sx, D> for Rec1Strat
where
    Sd: Data<Elem = f64>,
    Sx: Data<Elem = f64>,
    D: Dimension + RemoveAxis,
{
    fn interp_into(
        &self,
        interpolator: &Interp1D<Sd, Sx, D, Self>,
        mut target: ArrayViewMut<'_, f64, D::Smaller>,
        x: f64,
    ) -> Result<(), InterpolateError> {
        let mut log = lock(&self.log);
        let index = log.calls.len();
        log.calls.push(CallRec {
            index,
            qx: x.to_bits(),
            qy: 0,
            target: target.shape().to_vec(),
        });

        let lanes: usize = self.shape[1..].iter().product();
        for i in 0..self.x.len() {
            let (xi, row) = interpolator.index_point(i);
            let same = xi.to_bits() == self.x[i]
                && row.shape() == &self.shape[1..]
                && bits(&row) == self.data[i * lanes..(i + 1) * lanes];
            if !same {
                log.accessor.push(format!(
                    "index_point:{i}:x={:016x}:row={}:{}",
                    xi.to_bits(),
                    fmt_shape(row.shape()),
                    hex(&bits(&row))
                ));
            }
        }
        check_in_range("x", &self.x, x, interpolator.is_in_range(x), &mut log.accessor);
        if !x.is_nan() {
            let idx = interpolator.get_index_left_of(x);
            check_left_index("x", &self.x, x, idx, &mut log.accessor);
        }

        for (lane, t) in target.iter_mut().enumerate() {
            *t = written(index, lane);
        }
        if self.fail_at == Some(index) {
            Err(InterpolateError::OutOfBounds(CALL_MSG.into()))
        } else {
            Ok(())
        }
    }
}

// ---------------------------------------------------------------------------------------------
// 2-D recording strategy

struct Rec2<const MIN: usize> {
    log: SharedLog,
    fail_build: Option<FailBuild>,
    fail_at: Option<usize>,
}

struct Rec2Strat {
    log: SharedLog,
    fail_at: Option<usize>,
    x: Vec<u64>,
    y: Vec<u64>,
    shape: Vec<usize>,
    data: Vec<u64>,
}

impl<const MIN: usize, Sd, Sx, Sy, D> Interp2DStrategyBuilder<Sd, Sx, Sy, D> for Rec2<MIN>
where
    Sd: Data<Elem = f64>,
    Sx: Data<Elem = f64>,
    Sy: Data<Elem = f64>,
    D: Dimension + RemoveAxis,
    D::Smaller: RemoveAxis,
{
    const MINIMUM_DATA_LENGHT: usize = MIN;
    type FinishedStrat = Rec2Strat;

    fn build(
        self,
        x: &ArrayBase<Sx, Ix1>,
        y: &ArrayBase<Sy, Ix1>,
        data: &ArrayBase<Sd, D>,
    ) -> Result<Self::FinishedStrat, BuilderError> {
        let rec = BuildRec {
            x: bits(x),
            y: bits(y),
            shape: data.shape().to_vec(),
            data: bits(data),
        };
        let strat = Rec2Strat {
            log: self.log.clone(),
            fail_at: self.fail_at,
            x: rec.x.clone(),
            y: rec.y.clone(),
            shape: rec.shape.clone(),
            data: rec.data.clone(),
        };
        lock(&self.log).builds.push(rec);
        match self.fail_build {
            Some(kind) => Err(kind.error()),
            None => Ok(strat),
        }
    }
}

impl<Sd, Sx, Sy, D> Interp2DStrategy<Sd, Sx, Sy, D> for Rec2Strat
where
    Sd: Data<Elem = f64>,
    Sx: Data<Elem = f64>,
    Sy: Data<Elem = f64>,
    D: Dimension + RemoveAxis,
    D::Smaller: RemoveAxis,
{
    fn interp_into(
        &self,
        interpolator: &Interp2D<Sd, Sx, Sy, D, Self>,
        mut target: ArrayViewMut<'_, f64, <D::Smaller as Dimension>::Smaller>,
        x: f64,
        y: f64,
    ) -> Result<(), InterpolateError> {
        let mut log = lock(&self.log);
        let index = log.calls.len();
        log.calls.push(CallRec {
            index,
            qx: x.to_bits(),
            qy: y.to_bits(),
            target: target.shape().to_vec(),
        });

        let lanes: usize = self.shape[2..].iter().product();
        let ny = self.y.len();
        for i in 0..self.x.len() {
            for j in 0..ny {
                let (xi, yj, cell) = interpolator.index_point(i, j);
                let at = (i * ny + j) * lanes;
                let same = xi.to_bits() == self.x[i]
                    && yj.to_bits() == self.y[j]
                    && cell.shape() == &self.shape[2..]
                    && bits(&cell) == self.data[at..at + lanes];
                if !same {
                    log.accessor.push(format!(
                        "index_point:{i},{j}:x={:016x}:y={:016x}:cell={}:{}",
                        xi.to_bits(),
                        yj.to_bits(),
                        fmt_shape(cell.shape()),
                        hex(&bits(&cell))
                    ));
                }
            }
        }
        check_in_range("x", &self.x, x, interpolator.is_in_x_range(x), &mut log.accessor);
        check_in_range("y", &self.y, y, interpolator.is_in_y_range(y), &mut log.accessor);
        if !x.is_nan() && !y.is_nan() {
            let (ix, iy) = interpolator.get_index_left_of(x, y);
            check_left_index("x", &self.x, x, ix, &mut log.accessor);
            check_left_index("y", &self.y, y, iy, &mut log.accessor);
        }

        for (lane, t) in target.iter_mut().enumerate() {
            *t = written(index, lane);
        }
        if self.fail_at == Some(index) {
            Err(InterpolateError::OutOfBounds(CALL_MSG.into()))
        } else {
            Ok(())
        }
    }
}

type Built1<D> = Interp1D<OwnedRepr<f64>, OwnedRepr<f64>, D, Rec1Strat>;
type Built2<D> = Interp2D<OwnedRepr<f64>, OwnedRepr<f64>, OwnedRepr<f64>, D, Rec2Strat>;

// ---------------------------------------------------------------------------------------------
// entry points

#[derive(Clone, Copy, PartialEq, Eq, Debug)]
enum Entry {
    Scalar,
    Interp,
    InterpInto,
    Array,
    ArrayIx1,
    ArrayInto,
    ArrayIntoIx1,
}

impl Entry {
    fn name(self) -> &'static str {
        match self {
            Entry::Scalar => "interp_scalar",
            Entry::Interp => "interp",
            Entry::InterpInto => "interp_into",
            Entry::Array => "interp_array",
            Entry::ArrayIx1 => "interp_array_ix1",
            Entry::ArrayInto => "interp_array_into",
            Entry::ArrayIntoIx1 => "interp_array_into_ix1",
        }
    }
    fn takes_buffer(self) -> bool {
        matches!(
            self,
            Entry::InterpInto | Entry::ArrayInto | Entry::ArrayIntoIx1
        )
    }
}

/// one call through an entry point: the queries and the (correct) buffer shape
struct Call {
    entry: Entry,
    qshape: Vec<usize>,
    qx: Vec<f64>,
    /// same length as `qx` for 2-D, empty for 1-D
    qy: Vec<f64>,
    /// data shape minus the interpolated axes
    trailing: Vec<usize>,
    /// memory layout of the query arrays: 0 standard, 1 column-major, 2 every axis reversed (stride < 0)
    qlay: u8,
    /// memory layout of the y query array of a 2-D call (may differ from that of the x query array)
    qlay_y: u8,
}

impl Call {
    fn out_shape(&self) -> Vec<usize> {
        let mut s = self.qshape.clone();
        s.extend_from_slice(&self.trailing);
        s
    }
}

/// what the caller of an entry point got back: the result, and the returned array or the
/// state of the buffer it passed in
struct Outcome {
    result: Result<(), InterpolateError>,
    shape: Vec<usize>,
    bits: Vec<u64>,
}

fn from_value(r: Result<f64, InterpolateError>) -> Outcome {
    match r {
        Ok(v) => Outcome {
            result: Ok(()),
            shape: Vec::new(),
            bits: vec![v.to_bits()],
        },
        Err(e) => from_error(e),
    }
}

fn from_error(e: InterpolateError) -> Outcome {
    Outcome {
        result: Err(e),
        shape: Vec::new(),
        bits: Vec::new(),
    }
}

fn from_array<D: Dimension>(r: Result<Array<f64, D>, InterpolateError>) -> Outcome {
    match r {
        Ok(a) => Outcome {
            result: Ok(()),
            shape: a.shape().to_vec(),
            bits: bits(&a),
        },
        Err(e) => from_error(e),
    }
}

fn from_buffer<D: Dimension>(result: Result<(), InterpolateError>, buf: &Array<f64, D>) -> Outcome {
    Outcome {
        result,
        shape: buf.shape().to_vec(),
        bits: bits(buf),
    }
}

fn poisoned<D: Dimension>(shape: &[usize]) -> Array<f64, D> {
    ArrayD::from_elem(IxDyn(shape), f64::from_bits(POISON))
        .into_dimensionality::<D>()
        .expect("harness: buffer rank")
}

/// the query array with the given logical contents (row-major `values`) in memory layout `lay`
fn dyn_query(shape: &[usize], values: &[f64], lay: u8) -> ArrayD<f64> {
    let a = ArrayD::from_shape_vec(IxDyn(shape), values.to_vec()).expect("harness: query shape");
    match lay {
        1 => {
            let mut f = ArrayD::from_elem(IxDyn(shape).f(), 0.0);
            f.assign(&a);
            f
        }
        2 => {
            // contents stored back to front along every axis, then every axis inverted: same logical array
            let mut r = a.clone();
            for ax in 0..r.ndim() {
                r.invert_axis(Axis(ax));
            }
            let mut r = r.as_standard_layout().into_owned();
            for ax in 0..r.ndim() {
                r.invert_axis(Axis(ax));
            }
            r
        }
        _ => a,
    }
}

fn ix1_query(values: &[f64], lay: u8) -> Array1<f64> {
    dyn_query(&[values.len()], values, if lay == 1 { 0 } else { lay })
        .into_dimensionality::<Ix1>()
        .expect("harness: rank 1")
}

/// a built interpolator that can be driven through any entry point
trait Drive {
    const HAS_SCALAR: bool;
    fn drive(&self, call: &Call) -> Outcome;
}

// The `DimExtension` bound of `interp_array` is private to the crate, so the entry points can
// only be called at concrete dimension types: `$d` data, `$s` = `$d` minus the interpolated axes.
macro_rules! impl_drive_1d {
    ($d:ty, $s:ty, $has_scalar:expr, $scalar:expr) => {
        impl Drive for Built1<$d> {
            const HAS_SCALAR: bool = $has_scalar;
            fn drive(&self, call: &Call) -> Outcome {
                let q = call.qx.first().copied().unwrap_or(f64::NAN);
                match call.entry {
                    Entry::Scalar => {
                        let scalar: fn(&Self, f64) -> Outcome = $scalar;
                        scalar(self, q)
                    }
                    Entry::Interp => from_array(self.interp(q)),
                    Entry::InterpInto => {
                        let mut buf = poisoned::<$s>(&call.trailing);
                        let r = self.interp_into(q, buf.view_mut());
                        from_buffer(r, &buf)
                    }
                    Entry::Array => {
                        from_array(self.interp_array(&dyn_query(&call.qshape, &call.qx, call.qlay)))
                    }
                    Entry::ArrayIx1 => {
                        from_array(self.interp_array(&ix1_query(&call.qx, call.qlay)))
                    }
                    Entry::ArrayInto => {
                        let mut buf =
                            poisoned::<<IxDyn as DimAdd<$s>>::Output>(&call.out_shape());
                        let qs = dyn_query(&call.qshape, &call.qx, call.qlay);
                        let r = self.interp_array_into(&qs, buf.view_mut());
                        from_buffer(r, &buf)
                    }
                    Entry::ArrayIntoIx1 => {
                        let mut buf = poisoned::<<Ix1 as DimAdd<$s>>::Output>(&call.out_shape());
                        let qs = ix1_query(&call.qx, call.qlay);
                        let r = self.interp_array_into(&qs, buf.view_mut());
                        from_buffer(r, &buf)
                    }
                }
            }
        }
    };
}

impl_drive_1d!(Ix1, Ix0, true, |this, q| from_value(this.interp_scalar(q)));
impl_drive_1d!(IxDyn, IxDyn, false, |_, _| unreachable!(
    "interp_scalar needs statically 1-dimensional data"
));

macro_rules! impl_drive_2d {
    ($d:ty, $s:ty, $has_scalar:expr, $scalar:expr) => {
        impl Drive for Built2<$d> {
            const HAS_SCALAR: bool = $has_scalar;
            fn drive(&self, call: &Call) -> Outcome {
                let x = call.qx.first().copied().unwrap_or(f64::NAN);
                let y = call.qy.first().copied().unwrap_or(f64::NAN);
                match call.entry {
                    Entry::Scalar => {
                        let scalar: fn(&Self, f64, f64) -> Outcome = $scalar;
                        scalar(self, x, y)
                    }
                    Entry::Interp => from_array(self.interp(x, y)),
                    Entry::InterpInto => {
                        let mut buf = poisoned::<$s>(&call.trailing);
                        let r = self.interp_into(x, y, buf.view_mut());
                        from_buffer(r, &buf)
                    }
                    Entry::Array => from_array(self.interp_array(
                        &dyn_query(&call.qshape, &call.qx, call.qlay),
                        &dyn_query(&call.qshape, &call.qy, call.qlay_y),
                    )),
                    Entry::ArrayIx1 => from_array(self.interp_array(
                        &ix1_query(&call.qx, call.qlay),
                        &ix1_query(&call.qy, call.qlay_y),
                    )),
                    Entry::ArrayInto => {
                        let mut buf =
                            poisoned::<<IxDyn as DimAdd<$s>>::Output>(&call.out_shape());
                        let xs = dyn_query(&call.qshape, &call.qx, call.qlay);
                        let ys = dyn_query(&call.qshape, &call.qy, call.qlay_y);
                        let r = self.interp_array_into(&xs, &ys, buf.view_mut());
                        from_buffer(r, &buf)
                    }
                    Entry::ArrayIntoIx1 => {
                        let mut buf = poisoned::<<Ix1 as DimAdd<$s>>::Output>(&call.out_shape());
                        let xs = ix1_query(&call.qx, call.qlay);
                        let ys = ix1_query(&call.qy, call.qlay_y);
                        let r = self.interp_array_into(&xs, &ys, buf.view_mut());
                        from_buffer(r, &buf)
                    }
                }
            }
        }
    };
}

impl_drive_2d!(Ix2, Ix0, true, |this, x, y| from_value(this.interp_scalar(x, y)));
impl_drive_2d!(IxDyn, IxDyn, false, |_, _, _| unreachable!(
    "interp_scalar needs statically 2-dimensional data"
));

// ---------------------------------------------------------------------------------------------
// cases

struct Case {
    two_d: bool,
    min: usize,
    /// statically typed data (`Ix1` / `Ix2`) instead of `IxDyn`
    static_dim: bool,
    shape: Vec<usize>,
    values: Vec<f64>,
    /// explicit axes; `None` leaves the builder's default index axis in place
    x: Option<Vec<f64>>,
    y: Option<Vec<f64>>,
    fail_build: Option<FailBuild>,
    fail_at: Option<usize>,
    call: Call,
}

impl Case {
    fn interp_axes(&self) -> usize {
        if self.two_d {
            2
        } else {
            1
        }
    }

    /// the axis the strategy must see for data axis `ax`
    fn effective_axis(&self, ax: usize) -> Vec<f64> {
        let explicit = if ax == 0 { &self.x } else { &self.y };
        match explicit {
            Some(v) => v.clone(),
            None => (0..self.shape.get(ax).copied().unwrap_or(0))
                .map(|i| i as f64)
                .collect(),
        }
    }

    /// why the inputs must be rejected before the strategy is consulted (empty: they are valid)
    fn invalid_reasons(&self) -> Vec<&'static str> {
        let need = self.interp_axes();
        if self.shape.len() < need {
            return vec!["rank"];
        }
        let mut reasons = Vec::new();
        for ax in 0..need {
            let axis = self.effective_axis(ax);
            if self.shape[ax] < self.min {
                reasons.push("min");
            }
            if axis.len() != self.shape[ax] {
                reasons.push("length");
            }
            if !strictly_increasing(&axis) {
                reasons.push("monotonic");
            }
        }
        reasons.sort_unstable();
        reasons.dedup();
        reasons
    }

    fn describe(&self) -> String {
        let axis = |a: &Option<Vec<f64>>| match a {
            None => "default".to_string(),
            Some(v) => format!("[{}]", hex(&bits(v))),
        };
        let mut s = format!(
            "dim={};min={};dims={};shape={};data=[{}];x={}",
            if self.two_d { "2d" } else { "1d" },
            self.min,
            if self.static_dim { "static" } else { "dyn" },
            fmt_shape(&self.shape),
            hex(&bits(&self.values)),
            axis(&self.x),
        );
        if self.two_d {
            s.push_str(&format!(";y={}", axis(&self.y)));
        }
        s.push_str(&format!(
            ";fail_build={:?};entry={};qshape={};qx=[{}]",
            self.fail_build,
            self.call.entry.name(),
            fmt_shape(&self.call.qshape),
            hex(&bits(&self.call.qx)),
        ));
        if self.two_d {
            s.push_str(&format!(";qy=[{}]", hex(&bits(&self.call.qy))));
        }
        s.push_str(&format!(";fail_at={:?}", self.fail_at));
        s
    }
}

/// an axis with fewer than two points is not strictly increasing
fn strictly_increasing(v: &[f64]) -> bool {
    v.len() >= 2 && v.windows(2).all(|w| w[0] < w[1])
}

fn gen_value(rng: &mut Rng) -> f64 {
    match rng.below(40) {
        0 => rng.nan(),
        1 => -0.0,
        2 => f64::INFINITY,
        3 => f64::from_bits(rng.next() & 0x7fef_ffff_ffff_ffff),
        _ => rng.uniform(-10.0, 10.0),
    }
}

/// an axis for a data axis of length `len`: usually valid, otherwise broken in one named way
fn gen_axis(rng: &mut Rng, len: usize) -> Vec<f64> {
    let rising = |rng: &mut Rng, n: usize| {
        let mut cur = rng.uniform(-5.0, 5.0);
        (0..n)
            .map(|_| {
                let v = cur;
                cur += rng.uniform(0.1, 2.0);
                v
            })
            .collect::<Vec<f64>>()
    };
    let mut axis = rising(rng, len);
    if rng.chance(0.7) {
        return axis;
    }
    loop {
        match rng.below(7) {
            0 if len >= 2 => {
                let i = rng.below(len - 1);
                axis[i + 1] = axis[i];
            }
            1 if len >= 2 => {
                let i = rng.below(len - 1);
                axis.swap(i, i + 1);
            }
            2 if len >= 1 => {
                let i = rng.below(len);
                axis[i] = rng.nan();
            }
            3 if len >= 2 => axis.reverse(),
            4 => axis = rising(rng, len + 1),
            5 if len >= 1 => axis = rising(rng, len - 1),
            6 => axis = rising(rng, 1),
            _ => continue,
        }
        return axis;
    }
}

fn gen_query(rng: &mut Rng, axis: &[f64]) -> f64 {
    let (lo, hi) = if strictly_increasing(axis) {
        (axis[0], axis[axis.len() - 1])
    } else {
        (0.0, 1.0)
    };
    match rng.below(50) {
        0..=24 => rng.uniform(lo, hi),
        25..=29 if !axis.is_empty() => axis[rng.below(axis.len())],
        30..=32 => lo - rng.uniform(0.001, 4.0),
        33..=35 => hi + rng.uniform(0.001, 4.0),
        36..=39 => rng.nan(),
        40 => f64::INFINITY,
        41 => f64::NEG_INFINITY,
        42 => -0.0,
        43 => 0.0,
        44..=46 => f64::from_bits(rng.next() & 0xffef_ffff_ffff_ffff),
        _ => rng.uniform(lo, hi),
    }
}

fn gen_case(rng: &mut Rng, cycle: &mut usize) -> Case {
    let two_d = rng.chance(0.5);
    let need = if two_d { 2 } else { 1 };
    let min = rng.below(5);

    let mut shape = Vec::new();
    if rng.chance(0.05) {
        // data without (all of) the interpolated axes
        for _ in 0..rng.below(need) {
            shape.push(rng.range(0, 6));
        }
    } else {
        for _ in 0..need {
            shape.push(if rng.chance(0.6) {
                rng.range(min.max(2), 6)
            } else {
                rng.range(0, 6)
            });
        }
        // half of the cases have no trailing axes, so that static dimensions are common
        for _ in 0..rng.below(4).saturating_sub(1) {
            shape.push(if rng.chance(0.05) { 0 } else { rng.range(1, 3) });
        }
        if rng.chance(0.05) {
            // many (short) trailing axes: with a query of 5..6 axes the result has 13 and more axes (dynamic dimensions only)
            for _ in 0..(6 + rng.below(3)) {
                shape.push(if rng.chance(0.3) { 2 } else { 1 });
            }
        }
    }
    let total: usize = shape.iter().product();
    let values: Vec<f64> = (0..total).map(|_| gen_value(rng)).collect();

    let axis_for = |rng: &mut Rng, ax: usize| {
        if rng.chance(0.3) {
            None
        } else {
            Some(gen_axis(rng, shape.get(ax).copied().unwrap_or(0)))
        }
    };
    let mut x = axis_for(rng, 0);
    let mut y = if two_d { axis_for(rng, 1) } else { None };
    if two_d && shape.len() >= 2 && shape[0] != shape[1] && rng.chance(0.06) {
        // both axes valid in themselves but with each other's length (data laid out like a meshgrid "xy" grid): two length violations,
        // the strategy builder must not be consulted and the data must not be re-interpreted
        let rising = |rng: &mut Rng, n: usize| {
            let mut cur = rng.uniform(-5.0, 5.0);
            (0..n)
                .map(|_| {
                    let v = cur;
                    cur += rng.uniform(0.1, 2.0);
                    v
                })
                .collect::<Vec<f64>>()
        };
        x = Some(rising(rng, shape[1]));
        y = Some(rising(rng, shape[0]));
    }
    let static_dim = shape.len() == need && rng.chance(0.6);
    let fail_build = if rng.chance(0.15) {
        Some(match rng.below(4) {
            0 => FailBuild::NotEnoughData,
            1 => FailBuild::Monotonic,
            2 => FailBuild::ShapeError,
            _ => FailBuild::ValueError,
        })
    } else {
        None
    };

    // `interp_scalar` only exists for statically typed data
    let entry = if static_dim && rng.chance(0.25) {
        Entry::Scalar
    } else {
        match rng.below(6) {
            0 => Entry::Interp,
            1 => Entry::InterpInto,
            2 => Entry::Array,
            3 => Entry::ArrayIx1,
            4 => Entry::ArrayInto,
            _ => Entry::ArrayIntoIx1,
        }
    };
    let qshape: Vec<usize> = match entry {
        Entry::Scalar | Entry::Interp | Entry::InterpInto => Vec::new(),
        Entry::ArrayIx1 | Entry::ArrayIntoIx1 => vec![rng.range(0, 5)],
        Entry::Array | Entry::ArrayInto if shape.len() >= 8 => (0..(5 + rng.below(2)))
            .map(|_| if rng.chance(0.3) { 2 } else { 1 })
            .collect(),
        Entry::Array | Entry::ArrayInto => (0..rng.below(4))
            .map(|_| if rng.chance(0.08) { 0 } else { rng.range(1, 3) })
            .collect(),
    };
    let count: usize = qshape.iter().product();

    let mut case = Case {
        two_d,
        min,
        static_dim,
        shape,
        values,
        x,
        y,
        fail_build,
        fail_at: None,
        call: Call {
            entry,
            qshape,
            qx: Vec::new(),
            qy: Vec::new(),
            trailing: Vec::new(),
            qlay: rng.below(3) as u8,
            qlay_y: 0,
        },
    };
    // the y query array of a 2-D call is stored like the x query array half of the time, independently otherwise (a collapse of
    // the query axes that looks at the layout of one of the two arrays only pairs x[k] with another y)
    case.call.qlay_y = if rng.chance(0.5) { case.call.qlay } else { rng.below(3) as u8 };
    case.call.trailing = case.shape.get(need..).unwrap_or(&[]).to_vec();
    let (ax, ay) = (case.effective_axis(0), case.effective_axis(1));
    for _ in 0..count {
        case.call.qx.push(gen_query(rng, &ax));
        if two_d {
            case.call.qy.push(gen_query(rng, &ay));
        }
    }
    // the failing call cycles through every position of the batch across cases
    case.fail_at = match rng.below(20) {
        0..=8 => None,
        9 => Some(count + rng.below(3)),
        _ if count == 0 => None,
        _ => {
            *cycle += 1;
            Some(*cycle % count)
        }
    };
    case
}

// ---------------------------------------------------------------------------------------------
// execution

/// what happened when the case was run against the crate
struct Observed {
    /// `Err(text)`: `build()` panicked
    build: Result<Result<(), BuilderError>, String>,
    /// `None`: nothing was called (no interpolator); `Err(text)`: the entry point panicked
    call: Option<Result<Outcome, String>>,
}

fn panic_text(payload: Box<dyn std::any::Any + Send>) -> String {
    if let Some(s) = payload.downcast_ref::<String>() {
        s.clone()
    } else if let Some(s) = payload.downcast_ref::<&str>() {
        (*s).to_string()
    } else {
        "<non-string panic payload>".to_string()
    }
}

fn observe<I: Drive>(
    case: &Case,
    build: impl FnOnce() -> Result<I, BuilderError>,
) -> Observed {
    match catch_unwind(AssertUnwindSafe(build)) {
        Err(p) => Observed {
            build: Err(panic_text(p)),
            call: None,
        },
        Ok(Err(e)) => Observed {
            build: Ok(Err(e)),
            call: None,
        },
        Ok(Ok(interp)) => {
            debug_assert!(I::HAS_SCALAR || case.call.entry != Entry::Scalar);
            let call = catch_unwind(AssertUnwindSafe(|| interp.drive(&case.call)));
            Observed {
                build: Ok(Ok(())),
                call: Some(call.map_err(panic_text)),
            }
        }
    }
}

/// an owned axis array with the given logical contents whose elements are not adjacent in memory
/// (`lay` 1: every second element of a larger allocation, 2: stored back to front, stride -1)
fn axis_array(values: &[f64], lay: u8) -> Array1<f64> {
    match lay {
        1 => {
            let mut big = Array1::from_elem(values.len() * 2, f64::from_bits(POISON));
            for (i, v) in values.iter().enumerate() {
                big[2 * i] = *v;
            }
            big.slice_move(ndarray::s![..;2])
        }
        2 => {
            let mut r: Array1<f64> = values.iter().rev().copied().collect();
            r.invert_axis(Axis(0));
            r
        }
        _ => Array1::from(values.to_vec()),
    }
}

fn build_1d<const MIN: usize, D>(
    case: &Case,
    data: Array<f64, D>,
    log: &SharedLog,
) -> Result<Built1<D>, BuilderError>
where
    D: Dimension + RemoveAxis,
{
    let rec = Rec1::<MIN> {
        log: log.clone(),
        fail_build: case.fail_build,
        fail_at: case.fail_at,
    };
    let mut builder = Interp1DBuilder::new(data);
    if let Some(x) = &case.x {
        builder = builder.x(axis_array(x, case.call.qlay));
    }
    builder.strategy(rec).build()
}

fn build_2d<const MIN: usize, D>(
    case: &Case,
    data: Array<f64, D>,
    log: &SharedLog,
) -> Result<Built2<D>, BuilderError>
where
    D: Dimension + RemoveAxis,
    D::Smaller: RemoveAxis,
{
    let rec = Rec2::<MIN> {
        log: log.clone(),
        fail_build: case.fail_build,
        fail_at: case.fail_at,
    };
    let mut builder = Interp2DBuilder::new(data);
    if let Some(x) = &case.x {
        builder = builder.x(axis_array(x, case.call.qlay));
    }
    if let Some(y) = &case.y {
        builder = builder.y(axis_array(y, (case.call.qlay + 1) % 3));
    }
    builder.strategy(rec).build()
}

macro_rules! with_min {
    ($min:expr, $build:ident, $d:ty, $($arg:expr),*) => {
        match $min {
            0 => $build::<0, $d>($($arg),*),
            1 => $build::<1, $d>($($arg),*),
            2 => $build::<2, $d>($($arg),*),
            3 => $build::<3, $d>($($arg),*),
            _ => $build::<4, $d>($($arg),*),
        }
    };
}

fn run_case(case: &Case, log: &SharedLog) -> Observed {
    let dynamic = || {
        ArrayD::from_shape_vec(IxDyn(&case.shape), case.values.clone())
            .expect("harness: data shape")
    };
    match (case.two_d, case.static_dim) {
        (false, true) => {
            let data = Array1::from(case.values.clone());
            observe(case, || with_min!(case.min, build_1d, Ix1, case, data, log))
        }
        (false, false) => {
            let data = dynamic();
            observe(case, || with_min!(case.min, build_1d, IxDyn, case, data, log))
        }
        (true, true) => {
            let data =
                Array2::from_shape_vec((case.shape[0], case.shape[1]), case.values.clone())
                    .expect("harness: data shape");
            observe(case, || with_min!(case.min, build_2d, Ix2, case, data, log))
        }
        (true, false) => {
            let data = dynamic();
            observe(case, || with_min!(case.min, build_2d, IxDyn, case, data, log))
        }
    }
}

// ---------------------------------------------------------------------------------------------
// oracle

#[derive(Default)]
struct Report {
    hist: BTreeMap<String, usize>,
    failures: usize,
    builds_invoked: usize,
    calls_recorded: usize,
}

impl Report {
    fn count(&mut self, key: &str) {
        *self.hist.entry(key.to_string()).or_insert(0) += 1;
    }
}

/// (a) the build guard
fn check_build(case: &Case, log: &Log, seen: &Observed, fail: &mut dyn FnMut(&str, String)) {
    let reasons = case.invalid_reasons();
    let result = match &seen.build {
        Ok(r) => r,
        Err(text) => {
            fail("build-panicked", format!("panic={text:?}"));
            return;
        }
    };
    if !reasons.is_empty() {
        if !log.builds.is_empty() {
            fail(
                "strategy-built-from-invalid-inputs",
                format!("invalid={};invocations={}", reasons.join("+"), log.builds.len()),
            );
        }
        if result.is_ok() {
            fail("invalid-inputs-accepted", format!("invalid={}", reasons.join("+")));
        }
        return;
    }
    if log.builds.len() != 1 {
        fail(
            "strategy-build-invocations",
            format!("expected=1;got={};result={result:?}", log.builds.len()),
        );
    }
    if let Some(rec) = log.builds.first() {
        let want_x = bits(&case.effective_axis(0));
        let want_y = if case.two_d {
            bits(&case.effective_axis(1))
        } else {
            Vec::new()
        };
        if rec.x != want_x || rec.y != want_y {
            fail(
                "strategy-build-axes",
                format!("got_x=[{}];got_y=[{}]", hex(&rec.x), hex(&rec.y)),
            );
        }
        if rec.shape != case.shape || rec.data != bits(&case.values) {
            fail(
                "strategy-build-data",
                format!("got_shape={};got_data=[{}]", fmt_shape(&rec.shape), hex(&rec.data)),
            );
        }
    }
    match (case.fail_build, result) {
        (None, Ok(())) => {}
        (None, Err(e)) => fail("valid-inputs-rejected", format!("error={e:?}")),
        (Some(kind), Err(e)) if kind.matches(e) => {}
        (Some(kind), other) => fail(
            "strategy-build-error-not-passed-through",
            format!("expected={:?};got={other:?}", kind.error()),
        ),
    }
}

/// (b) the calls made through one entry point
fn check_calls(case: &Case, log: &Log, outcome: &Outcome, fail: &mut dyn FnMut(&str, String)) {
    let call = &case.call;
    let count = call.qx.len();
    let hit = case.fail_at.filter(|&k| k < count);
    let expected_calls = hit.map_or(count, |k| k + 1);

    if log.calls.len() != expected_calls {
        fail(
            "number-of-interp_into-calls",
            format!("expected={expected_calls};got={}", log.calls.len()),
        );
    }
    for (i, rec) in log.calls.iter().enumerate().take(expected_calls) {
        let want_y = call.qy.get(i).map_or(0, |q| q.to_bits());
        if rec.index != i || rec.qx != call.qx[i].to_bits() || rec.qy != want_y {
            fail(
                "query-not-passed-unmodified",
                format!(
                    "call={i};expected=({:016x},{want_y:016x});got=({:016x},{:016x})",
                    call.qx[i].to_bits(),
                    rec.qx,
                    rec.qy
                ),
            );
        }
        if rec.target != call.trailing {
            fail(
                "target-shape",
                format!(
                    "call={i};expected={};got={}",
                    fmt_shape(&call.trailing),
                    fmt_shape(&rec.target)
                ),
            );
        }
    }
    for a in &log.accessor {
        fail("accessor", a.clone());
    }

    let lanes: usize = call.trailing.iter().product();
    let written_bits = |elements: usize| -> Vec<u64> {
        (0..elements)
            .flat_map(|e| (0..lanes).map(move |lane| written(e, lane).to_bits()))
            .collect()
    };
    match (hit, &outcome.result) {
        (None, Ok(())) => {
            if outcome.shape != call.out_shape() {
                fail(
                    "output-shape",
                    format!(
                        "expected={};got={}",
                        fmt_shape(&call.out_shape()),
                        fmt_shape(&outcome.shape)
                    ),
                );
            }
            if outcome.bits != written_bits(count) {
                fail("output-values", format!("got=[{}]", hex(&outcome.bits)));
            }
        }
        (None, Err(e)) => fail("unexpected-error", format!("error={e:?}")),
        (Some(k), Ok(())) => fail("strategy-error-swallowed", format!("failing_call={k}")),
        (Some(k), Err(InterpolateError::OutOfBounds(msg))) => {
            if msg != CALL_MSG {
                fail("strategy-error-changed", format!("failing_call={k};got={msg:?}"));
            }
            if call.entry.takes_buffer() {
                // everything up to and including the failing call was written, nothing after it
                let mut want = written_bits(k + 1);
                want.resize(count * lanes, POISON);
                if outcome.bits != want {
                    fail(
                        "buffer-after-failure",
                        format!("failing_call={k};got=[{}]", hex(&outcome.bits)),
                    );
                }
            }
        }
    }
}

pub fn main(seed: u64, n: usize) {
    let mut rng = Rng(seed);
    let mut report = Report::default();
    let mut cycle = 0usize;
    for idx in 0..n {
        let case = gen_case(&mut rng, &mut cycle);
        let log: SharedLog = Arc::default();
        let seen = run_case(&case, &log);
        let log = lock(&log);

        let mut failures = 0usize;
        let mut fail = |what: &str, detail: String| {
            failures += 1;
            println!("FAIL case={idx} what={what} detail={detail};{}", case.describe());
        };
        check_build(&case, &log, &seen, &mut fail);
        match &seen.call {
            None => {}
            Some(Err(text)) => fail("entry-point-panicked", format!("panic={text:?}")),
            Some(Ok(outcome)) => check_calls(&case, &log, outcome, &mut fail),
        }
        report.failures += failures;
        report.builds_invoked += log.builds.len();
        report.calls_recorded += log.calls.len();

        report.count(if case.two_d { "dim_2d" } else { "dim_1d" });
        report.count(if case.static_dim { "dims_static" } else { "dims_dyn" });
        report.count(&format!("min_{}", case.min));
        report.count(if case.x.is_some() { "x_explicit" } else { "x_default" });
        if case.two_d {
            report.count(if case.y.is_some() { "y_explicit" } else { "y_default" });
        }
        let reasons = case.invalid_reasons();
        if reasons.is_empty() {
            report.count(if case.fail_build.is_some() {
                "build_valid_strategy_error"
            } else {
                "build_valid"
            });
        } else {
            report.count("build_invalid");
            for r in reasons {
                report.count(&format!("build_invalid_{r}"));
            }
        }
        if seen.call.is_some() {
            report.count(&format!("entry_{}", case.call.entry.name()));
            let count = case.call.qx.len();
            report.count(match case.fail_at {
                None => "fail_at_none",
                Some(k) if k < count => "fail_at_hit",
                Some(_) => "fail_at_beyond_batch",
            });
        }
    }
    let hist: Vec<String> = report
        .hist
        .iter()
        .map(|(k, v)| format!("{k}={v}"))
        .collect();
    println!("HIST {}", hist.join(" "));
    println!(
        "SUMMARY cases={n} builds_invoked={} calls_recorded={} failures={}",
        report.builds_invoked, report.calls_recorded, report.failures
    );
}
