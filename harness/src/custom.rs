//! C18 (to be filled in)
pub fn main(_seed: u64, _n: usize) {
    println!("SUMMARY cases=0 failures=0");
}
