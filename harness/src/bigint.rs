//! Minimal hand-written arbitrary-precision integers (the sandbox has no
//! `num-bigint`).
//!
//! * [`BigUint`]: magnitude, little-endian `u64` limbs, no leading zero limbs
//!   (zero is the empty vector).
//! * [`BigInt`]: sign + magnitude; zero is never negative.
//!
//! All algorithms are the simple quadratic ones (schoolbook multiplication,
//! Knuth algorithm D for division), except the gcd which is Lehmer's
//! (Knuth algorithm L) so that the rational normalisation of numbers with a
//! few thousand bits stays cheap.
//!
//! The crate is built with `overflow-checks = true` also in release mode, so
//! every intended wrap-around uses an explicit `wrapping_*`/`overflowing_*`
//! operation and everything else is checked.

// library-style module of a binary crate: not every entry point is used yet
#![allow(dead_code)]

use std::cmp::Ordering;
use std::fmt;

type Limb = u64;
const LIMB_BITS: usize = 64;

/// Largest power of ten that fits a limb, used for decimal conversion.
const DEC_CHUNK: u64 = 10_000_000_000_000_000_000;
const DEC_CHUNK_DIGITS: usize = 19;

// ---------------------------------------------------------------------------
// limb-slice primitives
// ---------------------------------------------------------------------------

fn trim(v: &mut Vec<Limb>) {
    while v.last() == Some(&0) {
        v.pop();
    }
}

fn cmp_limbs(a: &[Limb], b: &[Limb]) -> Ordering {
    if a.len() != b.len() {
        return a.len().cmp(&b.len());
    }
    for i in (0..a.len()).rev() {
        if a[i] != b[i] {
            return a[i].cmp(&b[i]);
        }
    }
    Ordering::Equal
}

/// `a + b`
fn add_limbs(a: &[Limb], b: &[Limb]) -> Vec<Limb> {
    let (long, short) = if a.len() >= b.len() { (a, b) } else { (b, a) };
    let mut out = Vec::with_capacity(long.len() + 1);
    let mut carry = false;
    for i in 0..long.len() {
        let s = if i < short.len() { short[i] } else { 0 };
        let (x, c1) = long[i].overflowing_add(s);
        let (y, c2) = x.overflowing_add(carry as Limb);
        out.push(y);
        carry = c1 || c2;
    }
    if carry {
        out.push(1);
    }
    out
}

/// `a - b`, requires `a >= b`
fn sub_limbs(a: &[Limb], b: &[Limb]) -> Vec<Limb> {
    debug_assert!(cmp_limbs(a, b) != Ordering::Less);
    let mut out = Vec::with_capacity(a.len());
    let mut borrow = false;
    for i in 0..a.len() {
        let s = if i < b.len() { b[i] } else { 0 };
        let (x, b1) = a[i].overflowing_sub(s);
        let (y, b2) = x.overflowing_sub(borrow as Limb);
        out.push(y);
        borrow = b1 || b2;
    }
    assert!(!borrow, "BigUint subtraction underflow");
    trim(&mut out);
    out
}

/// schoolbook `a * b`
fn mul_limbs(a: &[Limb], b: &[Limb]) -> Vec<Limb> {
    if a.is_empty() || b.is_empty() {
        return Vec::new();
    }
    let mut out = vec![0 as Limb; a.len() + b.len()];
    for (i, &ai) in a.iter().enumerate() {
        if ai == 0 {
            continue;
        }
        let mut carry: u128 = 0;
        for (j, &bj) in b.iter().enumerate() {
            // ai*bj + out + carry <= (B-1)^2 + 2(B-1) = B^2 - 1: never overflows
            let t = (ai as u128) * (bj as u128) + (out[i + j] as u128) + carry;
            out[i + j] = t as Limb;
            carry = t >> LIMB_BITS;
        }
        out[i + b.len()] = carry as Limb;
    }
    trim(&mut out);
    out
}

/// `a * m + add`, in place
fn mul_small_add_in_place(a: &mut Vec<Limb>, m: Limb, add: Limb) {
    let mut carry: u128 = add as u128;
    for x in a.iter_mut() {
        let t = (*x as u128) * (m as u128) + carry;
        *x = t as Limb;
        carry = t >> LIMB_BITS;
    }
    if carry != 0 {
        a.push(carry as Limb);
    }
}

/// `(a / d, a % d)` for a single-limb divisor
fn divrem_small(a: &[Limb], d: Limb) -> (Vec<Limb>, Limb) {
    assert!(d != 0, "BigUint division by zero");
    let mut q = vec![0 as Limb; a.len()];
    let mut rem: u128 = 0;
    for i in (0..a.len()).rev() {
        let cur = (rem << LIMB_BITS) | a[i] as u128;
        q[i] = (cur / d as u128) as Limb;
        rem = cur % d as u128;
    }
    trim(&mut q);
    (q, rem as Limb)
}

/// `a << s` with `s < 64`, into exactly `len` limbs (high bits must fit)
fn shl_small_into(a: &[Limb], s: u32, len: usize) -> Vec<Limb> {
    debug_assert!((s as usize) < LIMB_BITS && len >= a.len());
    let mut out = vec![0 as Limb; len];
    if s == 0 {
        out[..a.len()].copy_from_slice(a);
        return out;
    }
    let mut carry: Limb = 0;
    for i in 0..a.len() {
        out[i] = (a[i] << s) | carry;
        carry = a[i] >> (LIMB_BITS as u32 - s);
    }
    if a.len() < len {
        out[a.len()] = carry;
    } else {
        debug_assert!(carry == 0);
    }
    out
}

/// `a >> s` with `s < 64`, in place
fn shr_small_in_place(a: &mut [Limb], s: u32) {
    debug_assert!((s as usize) < LIMB_BITS);
    if s == 0 {
        return;
    }
    let mut carry: Limb = 0;
    for x in a.iter_mut().rev() {
        let next = *x << (LIMB_BITS as u32 - s);
        *x = (*x >> s) | carry;
        carry = next;
    }
}

/// Knuth TAOCP vol. 2, 4.3.1, algorithm D. Returns `(u / v, u % v)`.
fn divrem_limbs(u: &[Limb], v: &[Limb]) -> (Vec<Limb>, Vec<Limb>) {
    assert!(!v.is_empty(), "BigUint division by zero");
    if cmp_limbs(u, v) == Ordering::Less {
        return (Vec::new(), u.to_vec());
    }
    if v.len() == 1 {
        let (q, r) = divrem_small(u, v[0]);
        let r = if r == 0 { Vec::new() } else { vec![r] };
        return (q, r);
    }
    let n = v.len();
    let m = u.len() - n;
    const B: u128 = 1 << LIMB_BITS;

    // D1: normalise so that the top bit of the divisor is set
    let s = v[n - 1].leading_zeros();
    let vn = shl_small_into(v, s, n);
    let mut un = shl_small_into(u, s, u.len() + 1);
    let v1 = vn[n - 1] as u128;
    let v2 = vn[n - 2] as u128;

    let mut q = vec![0 as Limb; m + 1];
    for j in (0..=m).rev() {
        // D3: estimate the quotient digit
        let num = ((un[j + n] as u128) << LIMB_BITS) | un[j + n - 1] as u128;
        let mut qhat = num / v1;
        let mut rhat = num % v1;
        while qhat >= B || qhat * v2 > ((rhat << LIMB_BITS) | un[j + n - 2] as u128) {
            qhat -= 1;
            rhat += v1;
            if rhat >= B {
                break;
            }
        }
        // D4: multiply and subtract
        let mut carry: u128 = 0;
        let mut borrow = false;
        for i in 0..n {
            let p = qhat * (vn[i] as u128) + carry;
            carry = p >> LIMB_BITS;
            let (x, b1) = un[i + j].overflowing_sub(p as Limb);
            let (y, b2) = x.overflowing_sub(borrow as Limb);
            un[i + j] = y;
            borrow = b1 || b2;
        }
        let (x, b1) = un[j + n].overflowing_sub(carry as Limb);
        let (y, b2) = x.overflowing_sub(borrow as Limb);
        un[j + n] = y;
        // D5/D6: the estimate was one too large, add the divisor back
        if b1 || b2 {
            qhat -= 1;
            let mut c = false;
            for i in 0..n {
                let (x, c1) = un[i + j].overflowing_add(vn[i]);
                let (y, c2) = x.overflowing_add(c as Limb);
                un[i + j] = y;
                c = c1 || c2;
            }
            un[j + n] = un[j + n].wrapping_add(c as Limb);
        }
        q[j] = qhat as Limb;
    }
    // D8: denormalise the remainder
    un.truncate(n);
    shr_small_in_place(&mut un, s);
    trim(&mut un);
    trim(&mut q);
    (q, un)
}

fn bits_limbs(a: &[Limb]) -> usize {
    match a.last() {
        None => 0,
        Some(&top) => a.len() * LIMB_BITS - top.leading_zeros() as usize,
    }
}

/// the (at most 64) bits `[lo, lo + 64)` of `a` as a limb
fn window(a: &[Limb], lo: usize) -> Limb {
    let (limb, off) = (lo / LIMB_BITS, lo % LIMB_BITS);
    let low = a.get(limb).copied().unwrap_or(0);
    if off == 0 {
        return low;
    }
    let high = a.get(limb + 1).copied().unwrap_or(0);
    (low >> off) | (high << (LIMB_BITS - off))
}

/// `x*a + y*b` for small signed multipliers, where the result is known to be
/// non-negative and to fit into `max(a.len(), b.len())` limbs.
fn linear_combination(x: i128, a: &[Limb], y: i128, b: &[Limb]) -> Vec<Limb> {
    let len = a.len().max(b.len());
    let mut out = Vec::with_capacity(len);
    let mut carry: i128 = 0;
    for i in 0..len {
        let ai = a.get(i).copied().unwrap_or(0) as i128;
        let bi = b.get(i).copied().unwrap_or(0) as i128;
        // |x|,|y| < 2^62 with opposite signs: the sum stays inside i128
        let t = x * ai + y * bi + carry;
        out.push(t as Limb);
        carry = t >> LIMB_BITS;
    }
    assert!(carry == 0, "Lehmer gcd: cofactor step left a carry");
    trim(&mut out);
    out
}

fn gcd_u64(mut a: u64, mut b: u64) -> u64 {
    while b != 0 {
        let t = a % b;
        a = b;
        b = t;
    }
    a
}

/// Lehmer's gcd (Knuth TAOCP vol. 2, 4.5.2, algorithm L).
fn gcd_limbs(a: &[Limb], b: &[Limb]) -> Vec<Limb> {
    let (mut u, mut v) = if cmp_limbs(a, b) == Ordering::Less {
        (b.to_vec(), a.to_vec())
    } else {
        (a.to_vec(), b.to_vec())
    };
    // invariant: u >= v
    loop {
        if v.is_empty() {
            return u;
        }
        if u.len() == 1 {
            return vec![gcd_u64(u[0], v[0])];
        }
        if v.len() == 1 {
            let (_, r) = divrem_small(&u, v[0]);
            let g = gcd_u64(v[0], r);
            return vec![g];
        }
        // leading 62 bits of u and the bits of v at the same position
        const P: usize = 62;
        let lo = bits_limbs(&u) - P;
        let mask = (1u64 << P) - 1;
        let mut uh = (window(&u, lo) & mask) as i128;
        let mut vh = (window(&v, lo) & mask) as i128;
        let (mut ca, mut cb, mut cc, mut cd) = (1i128, 0i128, 0i128, 1i128);
        loop {
            let (n1, n2) = (uh + ca, uh + cb);
            let (d1, d2) = (vh + cc, vh + cd);
            if d1 <= 0 || d2 <= 0 || n1 < 0 || n2 < 0 {
                break;
            }
            // all four quantities are non-negative and below 2^63
            let q = (n1 as u64) / (d1 as u64);
            let q2 = (n2 as u64) / (d2 as u64);
            if q != q2 {
                break;
            }
            let q = q as i128;
            let t = ca - q * cc;
            ca = cc;
            cc = t;
            let t = cb - q * cd;
            cb = cd;
            cd = t;
            let t = uh - q * vh;
            uh = vh;
            vh = t;
        }
        if cb == 0 {
            // no progress possible with single precision: one full division step
            let (_, r) = divrem_limbs(&u, &v);
            u = v;
            v = r;
        } else {
            let nu = linear_combination(ca, &u, cb, &v);
            let nv = linear_combination(cc, &u, cd, &v);
            u = nu;
            v = nv;
            debug_assert!(cmp_limbs(&u, &v) != Ordering::Less);
        }
    }
}

// ---------------------------------------------------------------------------
// BigUint
// ---------------------------------------------------------------------------

/// Arbitrary-precision natural number.
#[derive(Clone, PartialEq, Eq, Hash, Default)]
pub struct BigUint {
    limbs: Vec<Limb>,
}

impl BigUint {
    fn from_limbs(mut limbs: Vec<Limb>) -> Self {
        trim(&mut limbs);
        BigUint { limbs }
    }

    pub fn zero() -> Self {
        BigUint { limbs: Vec::new() }
    }

    pub fn one() -> Self {
        BigUint { limbs: vec![1] }
    }

    pub fn from_u64(x: u64) -> Self {
        if x == 0 {
            Self::zero()
        } else {
            BigUint { limbs: vec![x] }
        }
    }

    pub fn from_u128(x: u128) -> Self {
        Self::from_limbs(vec![x as Limb, (x >> LIMB_BITS) as Limb])
    }

    pub fn is_zero(&self) -> bool {
        self.limbs.is_empty()
    }

    pub fn is_one(&self) -> bool {
        self.limbs.len() == 1 && self.limbs[0] == 1
    }

    pub fn is_even(&self) -> bool {
        self.limbs.first().is_none_or(|l| l & 1 == 0)
    }

    /// bit length (0 for zero)
    pub fn bits(&self) -> usize {
        bits_limbs(&self.limbs)
    }

    /// number of trailing zero bits (0 for zero)
    pub fn trailing_zeros(&self) -> usize {
        for (i, &l) in self.limbs.iter().enumerate() {
            if l != 0 {
                return i * LIMB_BITS + l.trailing_zeros() as usize;
            }
        }
        0
    }

    pub fn to_u64(&self) -> Option<u64> {
        match self.limbs.len() {
            0 => Some(0),
            1 => Some(self.limbs[0]),
            _ => None,
        }
    }

    pub fn to_u128(&self) -> Option<u128> {
        match self.limbs.len() {
            0 => Some(0),
            1 => Some(self.limbs[0] as u128),
            2 => Some(self.limbs[0] as u128 | (self.limbs[1] as u128) << LIMB_BITS),
            _ => None,
        }
    }

    pub fn add(&self, other: &Self) -> Self {
        BigUint { limbs: add_limbs(&self.limbs, &other.limbs) }
    }

    /// `self - other`; panics if `other > self`
    pub fn sub(&self, other: &Self) -> Self {
        assert!(self >= other, "BigUint subtraction underflow");
        BigUint { limbs: sub_limbs(&self.limbs, &other.limbs) }
    }

    pub fn mul(&self, other: &Self) -> Self {
        if self.is_one() {
            return other.clone();
        }
        if other.is_one() {
            return self.clone();
        }
        BigUint { limbs: mul_limbs(&self.limbs, &other.limbs) }
    }

    /// `(self / d, self % d)`; panics if `d == 0`
    pub fn divrem(&self, d: &Self) -> (Self, Self) {
        if d.is_one() {
            return (self.clone(), Self::zero());
        }
        let (q, r) = divrem_limbs(&self.limbs, &d.limbs);
        (BigUint { limbs: q }, BigUint { limbs: r })
    }

    /// `self / d` where the division is known to be exact
    pub fn div_exact(&self, d: &Self) -> Self {
        let (q, r) = self.divrem(d);
        debug_assert!(r.is_zero());
        q
    }

    /// greatest common divisor, `gcd(0, x) = x`
    pub fn gcd(&self, other: &Self) -> Self {
        if self.is_one() || other.is_one() {
            return Self::one();
        }
        BigUint { limbs: gcd_limbs(&self.limbs, &other.limbs) }
    }

    pub fn shl(&self, n: usize) -> Self {
        if self.is_zero() {
            return Self::zero();
        }
        let (whole, part) = (n / LIMB_BITS, (n % LIMB_BITS) as u32);
        let shifted = shl_small_into(&self.limbs, part, self.limbs.len() + 1);
        let mut limbs = vec![0 as Limb; whole];
        limbs.extend_from_slice(&shifted);
        Self::from_limbs(limbs)
    }

    pub fn shr(&self, n: usize) -> Self {
        let (whole, part) = (n / LIMB_BITS, (n % LIMB_BITS) as u32);
        if whole >= self.limbs.len() {
            return Self::zero();
        }
        let mut limbs = self.limbs[whole..].to_vec();
        shr_small_in_place(&mut limbs, part);
        Self::from_limbs(limbs)
    }

    pub fn pow(&self, mut e: u32) -> Self {
        let mut base = self.clone();
        let mut acc = Self::one();
        while e > 0 {
            if e & 1 == 1 {
                acc = acc.mul(&base);
            }
            e >>= 1;
            if e > 0 {
                base = base.mul(&base);
            }
        }
        acc
    }

    /// Parses a non-empty string of ASCII decimal digits (leading zeros allowed).
    pub fn parse_decimal(s: &str) -> Option<Self> {
        let bytes = s.as_bytes();
        if bytes.is_empty() || !bytes.iter().all(u8::is_ascii_digit) {
            return None;
        }
        let mut limbs: Vec<Limb> = Vec::new();
        // first chunk is the short one so that all others have 19 digits
        let mut pos = 0;
        let mut take = bytes.len() % DEC_CHUNK_DIGITS;
        if take == 0 {
            take = DEC_CHUNK_DIGITS;
        }
        while pos < bytes.len() {
            let chunk = bytes[pos..pos + take]
                .iter()
                .fold(0u64, |acc, &c| acc * 10 + (c - b'0') as u64);
            mul_small_add_in_place(&mut limbs, DEC_CHUNK, chunk);
            pos += take;
            take = DEC_CHUNK_DIGITS;
        }
        Some(Self::from_limbs(limbs))
    }

    pub fn to_decimal(&self) -> String {
        if self.is_zero() {
            return "0".to_string();
        }
        let mut chunks = Vec::new();
        let mut cur = self.limbs.clone();
        while !cur.is_empty() {
            let (q, r) = divrem_small(&cur, DEC_CHUNK);
            chunks.push(r);
            cur = q;
        }
        let mut out = String::with_capacity(chunks.len() * DEC_CHUNK_DIGITS);
        let mut iter = chunks.iter().rev();
        if let Some(first) = iter.next() {
            out.push_str(&first.to_string());
        }
        for c in iter {
            out.push_str(&format!("{c:019}"));
        }
        out
    }
}

impl PartialOrd for BigUint {
    fn partial_cmp(&self, other: &Self) -> Option<Ordering> {
        Some(self.cmp(other))
    }
}

impl Ord for BigUint {
    fn cmp(&self, other: &Self) -> Ordering {
        cmp_limbs(&self.limbs, &other.limbs)
    }
}

impl fmt::Display for BigUint {
    fn fmt(&self, f: &mut fmt::Formatter<'_>) -> fmt::Result {
        f.write_str(&self.to_decimal())
    }
}

impl fmt::Debug for BigUint {
    fn fmt(&self, f: &mut fmt::Formatter<'_>) -> fmt::Result {
        fmt::Display::fmt(self, f)
    }
}

// ---------------------------------------------------------------------------
// BigInt
// ---------------------------------------------------------------------------

/// Arbitrary-precision integer: sign and magnitude. Zero is never negative.
#[derive(Clone, PartialEq, Eq, Hash, Default)]
pub struct BigInt {
    neg: bool,
    mag: BigUint,
}

impl BigInt {
    pub fn from_parts(neg: bool, mag: BigUint) -> Self {
        BigInt { neg: neg && !mag.is_zero(), mag }
    }

    pub fn zero() -> Self {
        Self::default()
    }

    pub fn one() -> Self {
        Self::from_parts(false, BigUint::one())
    }

    pub fn from_i64(x: i64) -> Self {
        Self::from_parts(x < 0, BigUint::from_u64(x.unsigned_abs()))
    }

    pub fn from_u64(x: u64) -> Self {
        Self::from_parts(false, BigUint::from_u64(x))
    }

    pub fn from_i128(x: i128) -> Self {
        Self::from_parts(x < 0, BigUint::from_u128(x.unsigned_abs()))
    }

    pub fn from_u128(x: u128) -> Self {
        Self::from_parts(false, BigUint::from_u128(x))
    }

    pub fn is_zero(&self) -> bool {
        self.mag.is_zero()
    }

    pub fn is_negative(&self) -> bool {
        self.neg
    }

    pub fn is_positive(&self) -> bool {
        !self.neg && !self.mag.is_zero()
    }

    pub fn magnitude(&self) -> &BigUint {
        &self.mag
    }

    pub fn into_magnitude(self) -> BigUint {
        self.mag
    }

    pub fn neg(&self) -> Self {
        Self::from_parts(!self.neg, self.mag.clone())
    }

    pub fn abs(&self) -> Self {
        Self::from_parts(false, self.mag.clone())
    }

    pub fn add(&self, other: &Self) -> Self {
        if self.neg == other.neg {
            return Self::from_parts(self.neg, self.mag.add(&other.mag));
        }
        match self.mag.cmp(&other.mag) {
            Ordering::Equal => Self::zero(),
            Ordering::Greater => Self::from_parts(self.neg, self.mag.sub(&other.mag)),
            Ordering::Less => Self::from_parts(other.neg, other.mag.sub(&self.mag)),
        }
    }

    pub fn sub(&self, other: &Self) -> Self {
        self.add(&other.neg())
    }

    pub fn mul(&self, other: &Self) -> Self {
        Self::from_parts(self.neg != other.neg, self.mag.mul(&other.mag))
    }

    pub fn mul_mag(&self, other: &BigUint) -> Self {
        Self::from_parts(self.neg, self.mag.mul(other))
    }

    /// `self / d` where `d > 0` divides `self` exactly
    pub fn div_exact_mag(&self, d: &BigUint) -> Self {
        Self::from_parts(self.neg, self.mag.div_exact(d))
    }

    /// `floor(self / d)` for `d > 0`
    pub fn div_floor_mag(&self, d: &BigUint) -> Self {
        let (q, r) = self.mag.divrem(d);
        if self.neg && !r.is_zero() {
            Self::from_parts(true, q.add(&BigUint::one()))
        } else {
            Self::from_parts(self.neg, q)
        }
    }

    /// `self / d` truncated toward zero, for `d > 0`
    pub fn div_trunc_mag(&self, d: &BigUint) -> Self {
        let (q, _) = self.mag.divrem(d);
        Self::from_parts(self.neg, q)
    }

    pub fn to_i64(&self) -> Option<i64> {
        self.to_i128().and_then(|x| i64::try_from(x).ok())
    }

    pub fn to_u64(&self) -> Option<u64> {
        if self.neg {
            None
        } else {
            self.mag.to_u64()
        }
    }

    pub fn to_i128(&self) -> Option<i128> {
        let m = self.mag.to_u128()?;
        if self.neg {
            if m <= i128::MIN.unsigned_abs() {
                Some((m as i128).wrapping_neg())
            } else {
                None
            }
        } else {
            i128::try_from(m).ok()
        }
    }

    pub fn to_u128(&self) -> Option<u128> {
        if self.neg {
            None
        } else {
            self.mag.to_u128()
        }
    }

    /// Parses `-?[0-9]+`.
    pub fn parse_decimal(s: &str) -> Option<Self> {
        let (neg, digits) = match s.strip_prefix('-') {
            Some(rest) => (true, rest),
            None => (false, s),
        };
        Some(Self::from_parts(neg, BigUint::parse_decimal(digits)?))
    }
}

impl PartialOrd for BigInt {
    fn partial_cmp(&self, other: &Self) -> Option<Ordering> {
        Some(self.cmp(other))
    }
}

impl Ord for BigInt {
    fn cmp(&self, other: &Self) -> Ordering {
        match (self.neg, other.neg) {
            (false, true) => Ordering::Greater,
            (true, false) => Ordering::Less,
            (false, false) => self.mag.cmp(&other.mag),
            (true, true) => other.mag.cmp(&self.mag),
        }
    }
}

impl fmt::Display for BigInt {
    fn fmt(&self, f: &mut fmt::Formatter<'_>) -> fmt::Result {
        if self.neg {
            f.write_str("-")?;
        }
        fmt::Display::fmt(&self.mag, f)
    }
}

impl fmt::Debug for BigInt {
    fn fmt(&self, f: &mut fmt::Formatter<'_>) -> fmt::Result {
        fmt::Display::fmt(self, f)
    }
}

// ---------------------------------------------------------------------------
// tests
// ---------------------------------------------------------------------------

#[cfg(test)]
mod tests {
    use super::*;

    fn u(s: &str) -> BigUint {
        BigUint::parse_decimal(s).unwrap()
    }

    /// Vectors generated with python3 (see the header of the file):
    /// `a b a+b |a-b| a*b a//b a%b gcd(a,b)` in decimal, one case per line.
    const VECTORS: &str = include_str!("bigint_vectors.txt");

    #[test]
    fn python_vectors() {
        let mut count = 0;
        for line in VECTORS.lines() {
            if line.starts_with('#') || line.trim().is_empty() {
                continue;
            }
            let f: Vec<&str> = line.split_whitespace().collect();
            assert_eq!(f.len(), 8, "malformed vector line");
            let (a, b) = (u(f[0]), u(f[1]));
            // parse / print round trip
            assert_eq!(a.to_decimal(), f[0]);
            assert_eq!(b.to_decimal(), f[1]);
            assert_eq!(a.add(&b).to_decimal(), f[2], "add {line}");
            assert_eq!(b.add(&a).to_decimal(), f[2]);
            let (hi, lo) = if a >= b { (&a, &b) } else { (&b, &a) };
            assert_eq!(hi.sub(lo).to_decimal(), f[3], "sub");
            assert_eq!(a.mul(&b).to_decimal(), f[4], "mul");
            assert_eq!(b.mul(&a).to_decimal(), f[4]);
            if !b.is_zero() {
                let (q, r) = a.divrem(&b);
                assert_eq!(q.to_decimal(), f[5], "div");
                assert_eq!(r.to_decimal(), f[6], "rem");
                assert_eq!(q.mul(&b).add(&r), a);
            } else {
                assert_eq!(f[5], "-");
            }
            assert_eq!(a.gcd(&b).to_decimal(), f[7], "gcd");
            assert_eq!(b.gcd(&a).to_decimal(), f[7]);
            // signed arithmetic derived from the same data
            let (ia, ib) = (BigInt::from_parts(true, a.clone()), BigInt::from_parts(false, b.clone()));
            let diff = ia.add(&ib); // b - a
            assert_eq!(diff.magnitude().to_decimal(), f[3]);
            assert_eq!(diff.is_negative(), a > b);
            assert_eq!(ia.sub(&ib).magnitude().to_decimal(), f[2]);
            assert_eq!(ia.mul(&ib).magnitude().to_decimal(), f[4]);
            if !b.is_zero() {
                // floor(-a / b) = -(a // b) - (1 if a % b else 0)
                let fl = ia.div_floor_mag(&b);
                let expect = if f[6] == "0" { u(f[5]) } else { u(f[5]).add(&BigUint::one()) };
                assert_eq!(fl.magnitude(), &expect);
                assert_eq!(ia.div_trunc_mag(&b).magnitude().to_decimal(), f[5]);
            }
            count += 1;
        }
        assert!(count >= 200, "only {count} vectors");
    }

    #[test]
    fn small_values() {
        assert!(BigUint::zero().is_zero());
        assert_eq!(BigUint::zero().to_decimal(), "0");
        assert_eq!(BigUint::from_u64(0), BigUint::zero());
        assert_eq!(BigUint::from_u128(u128::MAX).to_decimal(), u128::MAX.to_string());
        assert_eq!(BigUint::from_u128(u128::MAX).to_u128(), Some(u128::MAX));
        assert_eq!(BigUint::from_u128(u128::MAX).to_u64(), None);
        assert_eq!(BigUint::from_u128(1 << 64).bits(), 65);
        assert_eq!(BigUint::from_u64(u64::MAX).to_u64(), Some(u64::MAX));
        assert_eq!(u("000123").to_decimal(), "123");
        assert_eq!(BigUint::parse_decimal(""), None);
        assert_eq!(BigUint::parse_decimal("12a"), None);
        assert_eq!(BigUint::parse_decimal("+12"), None);
        assert_eq!(BigInt::parse_decimal("-0").unwrap(), BigInt::zero());
        assert!(!BigInt::parse_decimal("-0").unwrap().is_negative());
        assert_eq!(BigInt::parse_decimal("--1"), None);
        assert_eq!(BigInt::from_i64(i64::MIN).to_string(), i64::MIN.to_string());
        assert_eq!(BigInt::from_i64(i64::MIN).to_i64(), Some(i64::MIN));
        assert_eq!(BigInt::from_i128(i128::MIN).to_i128(), Some(i128::MIN));
        assert_eq!(BigInt::from_i128(i128::MIN).sub(&BigInt::one()).to_i128(), None);
        assert_eq!(BigInt::from_u128(1 << 127).to_i128(), None);
        assert_eq!(BigInt::from_i64(-1).to_u64(), None);
        assert_eq!(BigUint::zero().gcd(&u("12")), u("12"));
        assert_eq!(u("12").gcd(&BigUint::zero()), u("12"));
        assert_eq!(BigUint::zero().gcd(&BigUint::zero()), BigUint::zero());
    }

    #[test]
    fn shifts_and_pow() {
        let x = u("123456789012345678901234567890123456789");
        for n in [0, 1, 63, 64, 65, 127, 128, 200] {
            let y = x.shl(n);
            assert_eq!(y.bits(), x.bits() + n);
            assert_eq!(y.shr(n), x);
            assert_eq!(y.trailing_zeros(), n + x.trailing_zeros());
            assert_eq!(y, x.mul(&BigUint::from_u64(2).pow(n as u32)));
        }
        assert_eq!(x.shr(1000), BigUint::zero());
        assert_eq!(BigUint::from_u64(3).pow(0), BigUint::one());
        assert_eq!(
            BigUint::from_u64(3).pow(100).to_decimal(),
            "515377520732011331036461129765621272702107522001"
        );
    }

    #[test]
    fn knuth_d_add_back_case() {
        // operands chosen so that the quotient estimate is one too large and
        // step D6 (add back) runs: u = B^3 * (B/2) - ..., classical example
        let b = BigUint::one().shl(64);
        let v = b.mul(&b).shl(63).add(&BigUint::one()); // 2^191 + 1 (3 limbs)
        let uu = v.mul(&b.sub(&BigUint::one())).add(&v.sub(&BigUint::one()));
        let (q, r) = uu.divrem(&v);
        assert_eq!(q, b.sub(&BigUint::one()));
        assert_eq!(r, v.sub(&BigUint::one()));
        // Hacker's Delight add-back vector, scaled to 64-bit limbs
        let uu = BigUint::from_limbs(vec![0, 0, 0x8000_0000_0000_0000, 0x7fff_ffff_ffff_ffff]);
        let v = BigUint::from_limbs(vec![1, 0, 0x8000_0000_0000_0000]);
        let (q, r) = uu.divrem(&v);
        assert_eq!(q.mul(&v).add(&r), uu);
        assert!(r < v);
        assert_eq!(q, BigUint::from_u64(0xffff_ffff_ffff_fffe));
    }

    /// xorshift64*, good enough for test data
    struct Rng(u64);
    impl Rng {
        fn next(&mut self) -> u64 {
            self.0 ^= self.0 >> 12;
            self.0 ^= self.0 << 25;
            self.0 ^= self.0 >> 27;
            self.0.wrapping_mul(0x2545_f491_4f6c_dd1d)
        }
        /// random number with at most `bits` bits; limbs are sometimes forced
        /// to all-zeros / all-ones to provoke carries and quotient corrections
        fn big(&mut self, bits: usize) -> BigUint {
            let n = bits.div_ceil(64);
            let mut limbs: Vec<u64> = (0..n)
                .map(|_| match self.next() % 8 {
                    0 => 0,
                    1 => u64::MAX,
                    2 => 1 << 63,
                    _ => self.next(),
                })
                .collect();
            if let Some(top) = limbs.last_mut() {
                *top >>= (64 - bits % 64) % 64;
            }
            BigUint::from_limbs(limbs)
        }
    }

    /// plain Euclid on top of `divrem`, as a reference for the Lehmer gcd
    fn gcd_reference(a: &BigUint, b: &BigUint) -> BigUint {
        let (mut a, mut b) = (a.clone(), b.clone());
        while !b.is_zero() {
            let r = a.divrem(&b).1;
            a = b;
            b = r;
        }
        a
    }

    #[test]
    fn randomized_self_consistency() {
        let mut rng = Rng(0x1234_5678_9abc_def1);
        for round in 0..3000 {
            let abits = 1 + (rng.next() % 6000) as usize;
            let bbits = 1 + (rng.next() % if round % 2 == 0 { 6000 } else { abits as u64 }) as usize;
            let (a, b) = (rng.big(abits), rng.big(bbits));
            // (a + b) - b = a, (a * b) / b = a
            assert_eq!(a.add(&b).sub(&b), a);
            if !b.is_zero() {
                let (q, r) = a.divrem(&b);
                assert!(r < b);
                assert_eq!(q.mul(&b).add(&r), a);
                let (q, r) = a.mul(&b).add(&r).divrem(&b);
                assert_eq!((q, r), (a.clone(), a.divrem(&b).1));
            }
            // Lehmer gcd against plain Euclid, also with a planted common factor
            let g = a.gcd(&b);
            assert_eq!(g, gcd_reference(&a, &b));
            let fbits = 1 + (rng.next() % 2000) as usize;
            let f = rng.big(fbits);
            let (fa, fb) = (a.mul(&f), b.mul(&f));
            assert_eq!(fa.gcd(&fb), g.mul(&f));
            // decimal round trip
            assert_eq!(u(&a.to_decimal()), a);
        }
    }

    #[test]
    fn timing_4000_bits() {
        let mut rng = Rng(42);
        let pairs: Vec<_> = (0..200).map(|_| (rng.big(4000), rng.big(4000))).collect();
        let start = std::time::Instant::now();
        let ones = pairs.iter().filter(|(a, b)| a.gcd(b).is_one()).count();
        let gcd = start.elapsed() / 200;
        let start = std::time::Instant::now();
        let bits: usize = pairs.iter().map(|(a, b)| a.mul(b).divrem(b).0.bits()).sum();
        let muldiv = start.elapsed() / 200;
        println!("4000-bit operands: gcd {gcd:?}, mul + divrem {muldiv:?} ({ones} coprime pairs, {bits} bits)");
    }

    #[test]
    fn ordering() {
        let vals = ["-100000000000000000000000", "-5", "0", "3", "18446744073709551616"];
        for (i, a) in vals.iter().enumerate() {
            for (j, b) in vals.iter().enumerate() {
                let (x, y) = (BigInt::parse_decimal(a).unwrap(), BigInt::parse_decimal(b).unwrap());
                assert_eq!(x.cmp(&y), i.cmp(&j));
            }
        }
    }
}
