//! C17: histories replayed permuted and across threads on one shared interpolator
#[path = "history.rs"]
mod history;

fn main() {
    // panics of the crate under test are outcomes, not noise
    std::panic::set_hook(Box::new(|_| {}));
    let args: Vec<String> = std::env::args().collect();
    let seed = args.get(1).and_then(|s| s.parse::<u64>().ok()).unwrap_or(1);
    let n = args.get(2).and_then(|s| s.parse::<usize>().ok()).unwrap_or(40);
    history::main(seed, n);
}
