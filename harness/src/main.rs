//! Verification harness for jonasBoss/ndarray-interp: runs the real crate (path dependency on
//! /repo, rebuilt from its working tree) on protocol cases and on in-process property checks.

mod bigint;
mod proto;
mod q;
mod run;
mod z;
mod z32;

use std::io::{BufRead, Write};

fn main() {
    // panics of the crate under test are outcomes, not noise
    std::panic::set_hook(Box::new(|_| {}));
    let args: Vec<String> = std::env::args().collect();
    match args.get(1).map(|s| s.as_str()) {
        Some("run") => {
            let stdin = std::io::stdin();
            let stdout = std::io::stdout();
            let mut out = std::io::BufWriter::new(stdout.lock());
            for line in stdin.lock().lines() {
                let line = line.expect("read");
                if line.trim().is_empty() {
                    continue;
                }
                writeln!(out, "{}", run::run_line(&line)).expect("write");
                // flushed per record: if the crate brings the process down, everything answered so far has been delivered
                out.flush().expect("flush");
            }
        }
        _ => {
            eprintln!("usage: vharness run < cases > results   (scenario binaries: vharness_casts, vharness_hist <seed> <n>, vharness_custom <seed> <n>)");
            std::process::exit(2);
        }
    }
}
