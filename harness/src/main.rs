//! Verification harness for jonasBoss/ndarray-interp: runs the real crate (path dependency on
//! /repo, rebuilt from its working tree) on protocol cases and on in-process property checks.

mod bigint;
mod casts;
mod custom;
mod history;
mod proto;
mod q;
mod run;

use std::io::{BufRead, Write};

fn main() {
    // panics of the crate under test are outcomes, not noise
    std::panic::set_hook(Box::new(|_| {}));
    let args: Vec<String> = std::env::args().collect();
    let seed = |i: usize| args.get(i).and_then(|s| s.parse::<u64>().ok()).unwrap_or(1);
    let count = |i: usize, d: usize| args.get(i).and_then(|s| s.parse::<usize>().ok()).unwrap_or(d);
    match args.get(1).map(|s| s.as_str()) {
        Some("run") => {
            let stdin = std::io::stdin();
            let stdout = std::io::stdout();
            let mut out = std::io::BufWriter::new(stdout.lock());
            for line in stdin.lock().lines() {
                let line = line.expect("read");
                if line.trim().is_empty() {
                    continue;
                }
                writeln!(out, "{}", run::run_line(&line)).expect("write");
            }
        }
        // C19: every instantiation of the rank-1 fast path: hook records, type names, fast vs general
        Some("casts") => casts::main(),
        // C17: histories replayed permuted and across threads on one shared interpolator
        Some("history") => history::main(seed(2), count(3, 40)),
        // C18: recording / failing user-defined strategies
        Some("custom") => custom::main(seed(2), count(3, 300)),
        _ => {
            eprintln!("usage: vharness run < cases > results | casts | history <seed> <n> | custom <seed> <n>");
            std::process::exit(2);
        }
    }
}
