mod bigint;
mod q;

fn main() {
    // smoke test of the exact scalar: 1/2 + 1/3 = 5/6
    let sum = q::Q::parse("1/2").unwrap() + q::Q::parse("1/3").unwrap();
    println!("vharness skeleton: 1/2 + 1/3 = {sum} ({} arena values)", q::arena_len());
}
