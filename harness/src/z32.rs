//! `Z32`: a transparent stand-in for `i32` as element type of the crate (generated from z.rs; see there).
//!
//! The crate is generic over its element type and only ever touches it through the `num-traits`
//! and `std::ops` interfaces; `Z32` forwards every one of them to `i32` (truncating division,
//! overflow-checked arithmetic as in a debug build, `ToPrimitive`/`NumCast` exactly like `i32`),
//! and additionally implements the traits `SplineNum` bundles so that the one generic protocol
//! runner can be instantiated at it.  What the crate computes at `Z32` is what it computes at `i32`.

use std::fmt;
use std::ops::{Add, Div, Mul, Neg, Rem, Sub, SubAssign};

use ndarray::ScalarOperand;
use num_traits::{Euclid, Num, NumCast, One, Pow, ToPrimitive, Zero};

#[derive(Clone, Copy, PartialEq, Eq, PartialOrd, Ord, Default)]
pub struct Z32(pub i32);

impl fmt::Debug for Z32 {
    fn fmt(&self, f: &mut fmt::Formatter<'_>) -> fmt::Result {
        write!(f, "{}", self.0)
    }
}

impl fmt::Display for Z32 {
    fn fmt(&self, f: &mut fmt::Formatter<'_>) -> fmt::Result {
        write!(f, "{}", self.0)
    }
}

macro_rules! forward {
    ($tr:ident, $m:ident, $checked:ident, $what:literal) => {
        impl $tr for Z32 {
            type Output = Z32;
            fn $m(self, rhs: Z32) -> Z32 {
                Z32(self.0.$checked(rhs.0).unwrap_or_else(|| panic!(concat!("attempt to ", $what, " with overflow"))))
            }
        }
    };
}

forward!(Add, add, checked_add, "add");
forward!(Sub, sub, checked_sub, "subtract");
forward!(Mul, mul, checked_mul, "multiply");
forward!(Div, div, checked_div, "divide by zero or");
forward!(Rem, rem, checked_rem, "calculate the remainder with a divisor of zero or");

impl Neg for Z32 {
    type Output = Z32;
    fn neg(self) -> Z32 {
        Z32(self.0.checked_neg().unwrap_or_else(|| panic!("attempt to negate with overflow")))
    }
}

impl SubAssign for Z32 {
    fn sub_assign(&mut self, rhs: Z32) {
        *self = *self - rhs;
    }
}

impl Zero for Z32 {
    fn zero() -> Z32 {
        Z32(0)
    }
    fn is_zero(&self) -> bool {
        self.0 == 0
    }
}

impl One for Z32 {
    fn one() -> Z32 {
        Z32(1)
    }
}

impl Num for Z32 {
    type FromStrRadixErr = std::num::ParseIntError;
    fn from_str_radix(s: &str, radix: u32) -> Result<Z32, Self::FromStrRadixErr> {
        i32::from_str_radix(s, radix).map(Z32)
    }
}

impl ToPrimitive for Z32 {
    fn to_i64(&self) -> Option<i64> {
        self.0.to_i64()
    }
    fn to_u64(&self) -> Option<u64> {
        self.0.to_u64()
    }
    fn to_i128(&self) -> Option<i128> {
        self.0.to_i128()
    }
    fn to_u128(&self) -> Option<u128> {
        self.0.to_u128()
    }
    fn to_isize(&self) -> Option<isize> {
        self.0.to_isize()
    }
    fn to_usize(&self) -> Option<usize> {
        self.0.to_usize()
    }
    fn to_f32(&self) -> Option<f32> {
        self.0.to_f32()
    }
    fn to_f64(&self) -> Option<f64> {
        self.0.to_f64()
    }
}

impl NumCast for Z32 {
    fn from<T: ToPrimitive>(n: T) -> Option<Z32> {
        <i32 as NumCast>::from(n).map(Z32)
    }
}

impl Pow<Z32> for Z32 {
    type Output = Z32;
    fn pow(self, rhs: Z32) -> Z32 {
        let e = u32::try_from(rhs.0).unwrap_or_else(|_| panic!("Z32: exponent out of range"));
        Z32(self.0.checked_pow(e).unwrap_or_else(|| panic!("attempt to multiply with overflow")))
    }
}

impl ScalarOperand for Z32 {}

impl Euclid for Z32 {
    fn div_euclid(&self, v: &Z32) -> Z32 {
        Z32(self.0.checked_div_euclid(v.0).unwrap_or_else(|| panic!("attempt to divide by zero or with overflow")))
    }
    fn rem_euclid(&self, v: &Z32) -> Z32 {
        Z32(self.0.checked_rem_euclid(v.0).unwrap_or_else(|| panic!("attempt to calculate the remainder with a divisor of zero or with overflow")))
    }
}


#[cfg(test)]
mod tests {
    use super::*;

    #[test]
    fn forwards_to_i32() {
        for a in [-7i32, -1, 0, 1, 5, 2_000_000_011] {
            for b in [-3i32, -1, 1, 2, 4] {
                assert_eq!((Z32(a) / Z32(b)).0, a / b);
                assert_eq!(Euclid::rem_euclid(&Z32(a), &Z32(b)).0, a.rem_euclid(b));
            }
            assert_eq!(Z32(a).to_usize(), a.to_usize());
            assert_eq!(<Z32 as NumCast>::from(a as f64).map(|z| z.0), <i32 as NumCast>::from(a as f64));
        }
        assert_eq!(<Z32 as NumCast>::from(3.0e9f64), None);
        assert_eq!(<Z32 as NumCast>::from(7usize), Some(Z32(7)));
    }
}
