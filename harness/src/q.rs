//! `Q`: an exact arbitrary-precision rational scalar that is `Copy`, so that
//! the generic code of `ndarray-interp` (which requires `Copy` elements) can be
//! instantiated with exact arithmetic.
//!
//! A `Q` is a `u32` handle into a thread-local arena of normalised rationals.
//! Every arithmetic result is pushed to the arena and its index returned, so
//! values are immutable and handles stay valid until [`reset_arena`] is
//! called. Handles must not be moved to another thread (the `Send` impl exists
//! only because the interpolation crate's bounds ask for it) and must not be
//! used after a [`reset_arena`] -- except the pre-seeded constants
//! [`Q::ZERO`], [`Q::ONE`], [`Q::TWO`], [`Q::THREE`], which are always valid.
//!
//! Text format (a wire format, compared textually against another program):
//! `p` if the denominator is 1, else `p/q`, always in lowest terms with
//! `q > 0` and the sign on `p`.

// library-style module of a binary crate: not every entry point is used yet
#![allow(dead_code)]

use std::cell::RefCell;
use std::cmp::Ordering;
use std::fmt;
use std::iter::{Product, Sum};
use std::ops::{
    Add, AddAssign, Div, DivAssign, Mul, MulAssign, Neg, Rem, RemAssign, Sub, SubAssign,
};

use ndarray::ScalarOperand;
use num_traits::{Euclid, Num, NumCast, One, Pow, ToPrimitive, Zero};

use crate::bigint::{BigInt, BigUint};

const DIV_BY_ZERO: &str = "Q: division by zero";

// ---------------------------------------------------------------------------
// normalised rational values
// ---------------------------------------------------------------------------

/// `num / den` with `den > 0`, `gcd(|num|, den) = 1`; zero is `0/1`.
#[derive(Clone, PartialEq, Eq)]
struct Rational {
    num: BigInt,
    den: BigUint,
}

impl Rational {
    fn from_int(num: BigInt) -> Self {
        Rational { num, den: BigUint::one() }
    }

    /// normalising constructor
    fn new(num: BigInt, den: BigUint) -> Self {
        if den.is_zero() {
            panic!("{DIV_BY_ZERO}");
        }
        if num.is_zero() {
            return Self::from_int(BigInt::zero());
        }
        let g = num.magnitude().gcd(&den);
        if g.is_one() {
            Rational { num, den }
        } else {
            Rational { num: num.div_exact_mag(&g), den: den.div_exact(&g) }
        }
    }

    fn is_zero(&self) -> bool {
        self.num.is_zero()
    }

    fn is_integer(&self) -> bool {
        self.den.is_one()
    }

    fn neg(&self) -> Self {
        Rational { num: self.num.neg(), den: self.den.clone() }
    }

    fn abs(&self) -> Self {
        Rational { num: self.num.abs(), den: self.den.clone() }
    }

    /// Knuth TAOCP vol. 2, 4.5.1: only gcds of the small operands are needed.
    fn add(&self, o: &Self) -> Self {
        if self.is_zero() {
            return o.clone();
        }
        if o.is_zero() {
            return self.clone();
        }
        if self.den == o.den {
            if self.den.is_one() {
                return Self::from_int(self.num.add(&o.num));
            }
            return Self::new(self.num.add(&o.num), self.den.clone());
        }
        let d1 = self.den.gcd(&o.den);
        if d1.is_one() {
            let num = self.num.mul_mag(&o.den).add(&o.num.mul_mag(&self.den));
            return Rational { num, den: self.den.mul(&o.den) };
        }
        let sd = self.den.div_exact(&d1);
        let od = o.den.div_exact(&d1);
        let t = self.num.mul_mag(&od).add(&o.num.mul_mag(&sd));
        if t.is_zero() {
            return Self::from_int(BigInt::zero());
        }
        let d2 = t.magnitude().gcd(&d1);
        if d2.is_one() {
            Rational { num: t, den: sd.mul(&o.den) }
        } else {
            Rational { num: t.div_exact_mag(&d2), den: sd.mul(&o.den.div_exact(&d2)) }
        }
    }

    fn sub(&self, o: &Self) -> Self {
        self.add(&o.neg())
    }

    fn mul(&self, o: &Self) -> Self {
        if self.is_zero() || o.is_zero() {
            return Self::from_int(BigInt::zero());
        }
        // cross-cancel: gcd(a, d) and gcd(c, b) for a/b * c/d
        let g1 = self.num.magnitude().gcd(&o.den);
        let g2 = o.num.magnitude().gcd(&self.den);
        let (a, d) = if g1.is_one() {
            (self.num.clone(), o.den.clone())
        } else {
            (self.num.div_exact_mag(&g1), o.den.div_exact(&g1))
        };
        let (c, b) = if g2.is_one() {
            (o.num.clone(), self.den.clone())
        } else {
            (o.num.div_exact_mag(&g2), self.den.div_exact(&g2))
        };
        Rational { num: a.mul(&c), den: b.mul(&d) }
    }

    fn recip(&self) -> Self {
        if self.is_zero() {
            panic!("{DIV_BY_ZERO}");
        }
        Rational {
            num: BigInt::from_parts(self.num.is_negative(), self.den.clone()),
            den: self.num.magnitude().clone(),
        }
    }

    fn div(&self, o: &Self) -> Self {
        self.mul(&o.recip())
    }

    fn floor(&self) -> BigInt {
        self.num.div_floor_mag(&self.den)
    }

    fn trunc(&self) -> BigInt {
        self.num.div_trunc_mag(&self.den)
    }

    /// `self - o * trunc(self / o)`
    fn rem_trunc(&self, o: &Self) -> Self {
        let q = Self::from_int(self.div(o).trunc());
        self.sub(&o.mul(&q))
    }

    /// `(q, r)` with `self = o*q + r`, `q` an integer and `0 <= r < |o|`
    fn div_rem_euclid(&self, o: &Self) -> (Self, Self) {
        let m = o.abs();
        let f = Self::from_int(self.div(&m).floor());
        let r = self.sub(&m.mul(&f));
        let q = if o.num.is_negative() { f.neg() } else { f };
        (q, r)
    }

    fn pow(&self, e: i64) -> Self {
        let n = u32::try_from(e.unsigned_abs()).unwrap_or_else(|_| panic!("Q: power exponent too large"));
        let base = if e < 0 { self.recip() } else { self.clone() };
        // numerator and denominator stay coprime, no gcd needed
        let neg = base.num.is_negative() && n % 2 == 1;
        Rational {
            num: BigInt::from_parts(neg, base.num.magnitude().pow(n)),
            den: base.den.pow(n),
        }
    }

    fn cmp(&self, o: &Self) -> Ordering {
        let (sn, on) = (self.num.is_negative(), o.num.is_negative());
        if sn != on || self.is_zero() || o.is_zero() || self.den == o.den {
            return self.num.cmp(&o.num);
        }
        // same non-zero sign: compare |a|*d with |c|*b, size estimate first
        let (a, b) = (self.num.magnitude(), &self.den);
        let (c, d) = (o.num.magnitude(), &o.den);
        let (l, r) = (a.bits() + d.bits(), c.bits() + b.bits());
        let mag = if l + 1 < r {
            Ordering::Less
        } else if r + 1 < l {
            Ordering::Greater
        } else {
            a.mul(d).cmp(&c.mul(b))
        };
        if sn {
            mag.reverse()
        } else {
            mag
        }
    }

    fn num_bits(&self) -> usize {
        self.num.magnitude().bits() + self.den.bits()
    }

    fn from_f64_exact(f: f64) -> Option<Self> {
        if !f.is_finite() {
            return None;
        }
        let bits = f.to_bits();
        let neg = bits >> 63 == 1;
        let exp = ((bits >> 52) & 0x7ff) as i64;
        let frac = bits & ((1u64 << 52) - 1);
        let (mut m, mut e) = if exp == 0 { (frac, -1074) } else { (frac | (1u64 << 52), exp - 1075) };
        if m == 0 {
            return Some(Self::from_int(BigInt::zero()));
        }
        let tz = m.trailing_zeros();
        m >>= tz;
        e += tz as i64;
        // m is odd now: m * 2^e is in lowest terms
        let m = BigUint::from_u64(m);
        Some(if e >= 0 {
            Self::from_int(BigInt::from_parts(neg, m.shl(e as usize)))
        } else {
            Rational { num: BigInt::from_parts(neg, m), den: BigUint::one().shl((-e) as usize) }
        })
    }

    /// nearest `f64` (round to nearest even; only subnormal results may be
    /// double-rounded); overflows to infinity.
    fn to_f64(&self) -> f64 {
        if self.is_zero() {
            return 0.0;
        }
        let (n, d) = (self.num.magnitude(), &self.den);
        // scale so that the integer quotient has 66 or 67 bits
        let shift = 66 - (n.bits() as i64 - d.bits() as i64);
        let (q, r) = if shift >= 0 {
            n.shl(shift as usize).divrem(d)
        } else {
            n.divrem(&d.shl((-shift) as usize))
        };
        let mut qi = q.to_u128().expect("quotient has at most 67 bits");
        if !r.is_zero() {
            qi |= 1; // sticky bit, far below the 53 bits that survive
        }
        let x = ldexp(qi as f64, -shift);
        if self.num.is_negative() {
            -x
        } else {
            x
        }
    }
}

/// `x * 2^e` for a normal `x`
fn ldexp(mut x: f64, mut e: i64) -> f64 {
    let pow2 = |k: i64| f64::from_bits(((1023 + k) as u64) << 52); // -1022 <= k <= 1023
    if e > 2200 {
        return x * f64::INFINITY;
    }
    if e < -2200 {
        return x * 0.0;
    }
    while e > 0 {
        let k = e.min(1000);
        x *= pow2(k);
        e -= k;
    }
    while e < 0 {
        let k = (-e).min(1000);
        x *= pow2(-k);
        e += k;
    }
    x
}

impl fmt::Display for Rational {
    fn fmt(&self, f: &mut fmt::Formatter<'_>) -> fmt::Result {
        if self.den.is_one() {
            write!(f, "{}", self.num)
        } else {
            write!(f, "{}/{}", self.num, self.den)
        }
    }
}

// ---------------------------------------------------------------------------
// arena
// ---------------------------------------------------------------------------

/// number of pre-seeded constants: index `i` holds the integer `i`
const SEEDED: usize = 4;

fn seeded_arena() -> Vec<Rational> {
    (0..SEEDED as u64).map(|i| Rational::from_int(BigInt::from_u64(i))).collect()
}

thread_local! {
    static ARENA: RefCell<Vec<Rational>> = RefCell::new(seeded_arena());
}

/// Drops every value of this thread's arena except the pre-seeded constants.
/// All handles other than `Q::ZERO`, `Q::ONE`, `Q::TWO`, `Q::THREE` (and
/// results that are equal to one of those, which reuse their handles) become
/// invalid.
pub fn reset_arena() {
    ARENA.with(|a| a.borrow_mut().truncate(SEEDED));
}

/// Number of values currently stored in this thread's arena (including the
/// four pre-seeded constants).
pub fn arena_len() -> usize {
    ARENA.with(|a| a.borrow().len())
}

/// Largest [`Q::num_bits`] over all values in this thread's arena.
pub fn arena_max_bits() -> usize {
    ARENA.with(|a| a.borrow().iter().map(Rational::num_bits).max().unwrap_or(0))
}

fn alloc(r: Rational) -> Q {
    if r.den.is_one() {
        if let Some(v) = r.num.to_u64() {
            if (v as usize) < SEEDED {
                return Q(v as u32);
            }
        }
    }
    ARENA.with(|a| {
        let mut a = a.borrow_mut();
        let idx = u32::try_from(a.len()).expect("Q: arena exhausted (more than 2^32 values)");
        a.push(r);
        Q(idx)
    })
}

fn get(arena: &[Rational], q: Q) -> &Rational {
    arena.get(q.0 as usize).expect("Q: stale handle (used after reset_arena)")
}

fn with1<R>(a: Q, f: impl FnOnce(&Rational) -> R) -> R {
    ARENA.with(|ar| {
        let ar = ar.borrow();
        f(get(&ar, a))
    })
}

fn with2<R>(a: Q, b: Q, f: impl FnOnce(&Rational, &Rational) -> R) -> R {
    ARENA.with(|ar| {
        let ar = ar.borrow();
        f(get(&ar, a), get(&ar, b))
    })
}

fn map1(a: Q, f: impl FnOnce(&Rational) -> Rational) -> Q {
    alloc(with1(a, f))
}

fn map2(a: Q, b: Q, f: impl FnOnce(&Rational, &Rational) -> Rational) -> Q {
    alloc(with2(a, b, f))
}

// ---------------------------------------------------------------------------
// Q
// ---------------------------------------------------------------------------

/// Exact rational number; a `Copy` handle into the thread-local arena.
#[derive(Clone, Copy)]
pub struct Q(u32);

/// Error of [`Num::from_str_radix`] for [`Q`].
#[derive(Debug, Clone, Copy, PartialEq, Eq)]
pub struct ParseQError;

impl fmt::Display for ParseQError {
    fn fmt(&self, f: &mut fmt::Formatter<'_>) -> fmt::Result {
        f.write_str("invalid rational literal")
    }
}

impl std::error::Error for ParseQError {}

impl Q {
    pub const ZERO: Q = Q(0);
    pub const ONE: Q = Q(1);
    pub const TWO: Q = Q(2);
    pub const THREE: Q = Q(3);

    /// Parses `p` or `p/q`: `p` is `-?[0-9]+`, `q` is `[0-9]+` and non-zero.
    /// No whitespace, no `+`. The result is normalised.
    pub fn parse(s: &str) -> Option<Q> {
        let (p, q) = match s.split_once('/') {
            Some((p, q)) => (p, Some(q)),
            None => (s, None),
        };
        let num = BigInt::parse_decimal(p)?;
        let den = match q {
            Some(q) => BigUint::parse_decimal(q)?,
            None => BigUint::one(),
        };
        if den.is_zero() {
            return None;
        }
        Some(alloc(Rational::new(num, den)))
    }

    pub fn from_i64(n: i64) -> Q {
        alloc(Rational::from_int(BigInt::from_i64(n)))
    }

    pub fn from_u64(n: u64) -> Q {
        alloc(Rational::from_int(BigInt::from_u64(n)))
    }

    pub fn from_i128(n: i128) -> Q {
        alloc(Rational::from_int(BigInt::from_i128(n)))
    }

    pub fn from_u128(n: u128) -> Q {
        alloc(Rational::from_int(BigInt::from_u128(n)))
    }

    /// `num / den`, normalised; panics with "Q: division by zero" if `den == 0`.
    pub fn from_ratio(num: i64, den: u64) -> Q {
        alloc(Rational::new(BigInt::from_i64(num), BigUint::from_u64(den)))
    }

    /// Exact value of a finite `f64`; `None` for NaN and the infinities.
    pub fn from_f64_exact(f: f64) -> Option<Q> {
        Rational::from_f64_exact(f).map(alloc)
    }

    /// Nearest `f64` (diagnostics only).
    pub fn to_f64_approx(self) -> f64 {
        with1(self, Rational::to_f64)
    }

    /// Largest integer `<= self`.
    pub fn floor(self) -> Q {
        map1(self, |r| Rational::from_int(r.floor()))
    }

    /// Integer part, rounding toward zero.
    pub fn trunc(self) -> Q {
        map1(self, |r| Rational::from_int(r.trunc()))
    }

    pub fn abs(self) -> Q {
        if self.is_negative() {
            -self
        } else {
            self
        }
    }

    /// `1 / self`; panics with "Q: division by zero" for zero.
    pub fn recip(self) -> Q {
        map1(self, Rational::recip)
    }

    /// Exact integer power; negative exponents give the reciprocal power.
    pub fn powi(self, e: i32) -> Q {
        map1(self, |r| r.pow(e as i64))
    }

    pub fn is_integer(self) -> bool {
        with1(self, Rational::is_integer)
    }

    pub fn is_negative(self) -> bool {
        with1(self, |r| r.num.is_negative())
    }

    pub fn is_positive(self) -> bool {
        with1(self, |r| r.num.is_positive())
    }

    /// Bit length of the numerator magnitude plus bit length of the denominator.
    pub fn num_bits(self) -> usize {
        with1(self, Rational::num_bits)
    }

    /// The arena index (diagnostics only).
    pub fn handle(self) -> u32 {
        self.0
    }
}

impl Default for Q {
    fn default() -> Self {
        Q::ZERO
    }
}

impl fmt::Display for Q {
    fn fmt(&self, f: &mut fmt::Formatter<'_>) -> fmt::Result {
        let s = with1(*self, |r| r.to_string());
        if f.width().is_some() {
            f.pad(&s)
        } else {
            f.write_str(&s)
        }
    }
}

impl fmt::Debug for Q {
    fn fmt(&self, f: &mut fmt::Formatter<'_>) -> fmt::Result {
        fmt::Display::fmt(self, f)
    }
}

impl PartialEq for Q {
    fn eq(&self, other: &Self) -> bool {
        // values are normalised, so structural equality is value equality
        self.0 == other.0 || with2(*self, *other, |a, b| a == b)
    }
}

impl Eq for Q {}

impl PartialOrd for Q {
    fn partial_cmp(&self, other: &Self) -> Option<Ordering> {
        Some(self.cmp(other))
    }
}

impl Ord for Q {
    fn cmp(&self, other: &Self) -> Ordering {
        if self.0 == other.0 {
            return Ordering::Equal;
        }
        with2(*self, *other, Rational::cmp)
    }
}

// --- arithmetic ------------------------------------------------------------

/// implements a binary operator for all four value/reference combinations
macro_rules! binop {
    ($Trait:ident, $method:ident, $f:expr) => {
        impl $Trait<Q> for Q {
            type Output = Q;
            fn $method(self, rhs: Q) -> Q {
                map2(self, rhs, $f)
            }
        }
        impl $Trait<&Q> for Q {
            type Output = Q;
            fn $method(self, rhs: &Q) -> Q {
                map2(self, *rhs, $f)
            }
        }
        impl $Trait<Q> for &Q {
            type Output = Q;
            fn $method(self, rhs: Q) -> Q {
                map2(*self, rhs, $f)
            }
        }
        impl $Trait<&Q> for &Q {
            type Output = Q;
            fn $method(self, rhs: &Q) -> Q {
                map2(*self, *rhs, $f)
            }
        }
    };
}

macro_rules! assignop {
    ($Trait:ident, $method:ident, $op:tt) => {
        impl $Trait<Q> for Q {
            fn $method(&mut self, rhs: Q) {
                *self = *self $op rhs;
            }
        }
        impl $Trait<&Q> for Q {
            fn $method(&mut self, rhs: &Q) {
                *self = *self $op *rhs;
            }
        }
    };
}

binop!(Add, add, Rational::add);
binop!(Sub, sub, Rational::sub);
binop!(Mul, mul, Rational::mul);
binop!(Div, div, Rational::div);
binop!(Rem, rem, Rational::rem_trunc);
assignop!(AddAssign, add_assign, +);
assignop!(SubAssign, sub_assign, -);
assignop!(MulAssign, mul_assign, *);
assignop!(DivAssign, div_assign, /);
assignop!(RemAssign, rem_assign, %);

impl Neg for Q {
    type Output = Q;
    fn neg(self) -> Q {
        map1(self, Rational::neg)
    }
}

impl Neg for &Q {
    type Output = Q;
    fn neg(self) -> Q {
        map1(*self, Rational::neg)
    }
}

impl Sum for Q {
    fn sum<I: Iterator<Item = Q>>(iter: I) -> Q {
        iter.fold(Q::ZERO, |a, b| a + b)
    }
}

impl<'a> Sum<&'a Q> for Q {
    fn sum<I: Iterator<Item = &'a Q>>(iter: I) -> Q {
        iter.fold(Q::ZERO, |a, b| a + *b)
    }
}

impl Product for Q {
    fn product<I: Iterator<Item = Q>>(iter: I) -> Q {
        iter.fold(Q::ONE, |a, b| a * b)
    }
}

impl<'a> Product<&'a Q> for Q {
    fn product<I: Iterator<Item = &'a Q>>(iter: I) -> Q {
        iter.fold(Q::ONE, |a, b| a * *b)
    }
}

// --- num-traits --------------------------------------------------------------

impl Zero for Q {
    fn zero() -> Q {
        Q::ZERO
    }
    fn is_zero(&self) -> bool {
        with1(*self, Rational::is_zero)
    }
}

impl One for Q {
    fn one() -> Q {
        Q::ONE
    }
}

impl Num for Q {
    type FromStrRadixErr = ParseQError;
    /// Only radix 10 is supported, with the grammar of [`Q::parse`].
    fn from_str_radix(s: &str, radix: u32) -> Result<Q, ParseQError> {
        if radix != 10 {
            return Err(ParseQError);
        }
        Q::parse(s).ok_or(ParseQError)
    }
}

/// Integer conversions follow the rules of num-traits' float casts: the value
/// is truncated toward zero and the result is `Some` iff the truncated value
/// is representable, i.e. iff `MIN - 1 < self < MAX + 1`.
impl ToPrimitive for Q {
    fn to_i64(&self) -> Option<i64> {
        with1(*self, |r| r.trunc().to_i64())
    }
    fn to_u64(&self) -> Option<u64> {
        with1(*self, |r| r.trunc().to_u64())
    }
    fn to_i128(&self) -> Option<i128> {
        with1(*self, |r| r.trunc().to_i128())
    }
    fn to_u128(&self) -> Option<u128> {
        with1(*self, |r| r.trunc().to_u128())
    }
    fn to_f32(&self) -> Option<f32> {
        Some(self.to_f64_approx() as f32)
    }
    fn to_f64(&self) -> Option<f64> {
        Some(self.to_f64_approx())
    }
}

impl NumCast for Q {
    /// Exact whenever the source is a primitive integer or a finite float:
    /// the integer view is used if it agrees with the float view, otherwise
    /// the float view is converted exactly. NaN and infinities give `None`.
    fn from<T: ToPrimitive>(n: T) -> Option<Q> {
        let f = n.to_f64();
        let integral = |x: f64| x.is_finite() && x.fract() == 0.0;
        if let Some(i) = n.to_i128() {
            if f.is_none_or(|x| integral(x) && x == i as f64) {
                return Some(Q::from_i128(i));
            }
        } else if let Some(u) = n.to_u128() {
            if f.is_none_or(|x| integral(x) && x == u as f64) {
                return Some(Q::from_u128(u));
            }
        }
        Q::from_f64_exact(f?)
    }
}

impl Pow<Q> for Q {
    type Output = Q;
    /// The exponent must be an integer (else panics with
    /// "Q: non-integer power") whose magnitude fits `u32`; negative exponents
    /// give the reciprocal power (and "Q: division by zero" for a zero base).
    fn pow(self, rhs: Q) -> Q {
        map2(self, rhs, |b, e| {
            if !e.is_integer() {
                panic!("Q: non-integer power");
            }
            let e = e.num.to_i64().unwrap_or_else(|| panic!("Q: power exponent too large"));
            b.pow(e)
        })
    }
}

impl Pow<&Q> for Q {
    type Output = Q;
    fn pow(self, rhs: &Q) -> Q {
        Pow::pow(self, *rhs)
    }
}

impl ScalarOperand for Q {}

impl Euclid for Q {
    /// `q` with `self = v*q + self.rem_euclid(v)`
    fn div_euclid(&self, v: &Q) -> Q {
        map2(*self, *v, |a, b| a.div_rem_euclid(b).0)
    }
    /// `self - |v| * floor(self / |v|)`, in `[0, |v|)`
    fn rem_euclid(&self, v: &Q) -> Q {
        map2(*self, *v, |a, b| a.div_rem_euclid(b).1)
    }
}

// ---------------------------------------------------------------------------
// tests
// ---------------------------------------------------------------------------

#[cfg(test)]
mod tests {
    use super::*;
    use ndarray::{array, Array1};
    use ndarray_interp::interp1d::{
        cubic_spline::{BoundaryCondition, CubicSpline, SplineNum},
        Interp1DBuilder, Linear,
    };
    use ndarray_interp::interp2d::Interp2DBuilder;
    use num_traits::cast;

    fn q(s: &str) -> Q {
        Q::parse(s).unwrap()
    }

    #[test]
    fn satisfies_crate_bounds() {
        fn spline_num<T: SplineNum>() {}
        fn misc<T: Copy + Default + Send + fmt::Display + Ord + 'static>() {}
        spline_num::<Q>();
        misc::<Q>();
    }

    #[test]
    fn spline_cubic_reproduction() {
        // p(x) = x^3 - 2x^2 + x/2 + 1 on a non-uniform axis; not-a-knot spline must reproduce it exactly
        let x = array![q("0"), q("1"), q("3"), q("4"), q("8")];
        let y = array![q("1"), q("1/2"), q("23/2"), q("35"), q("389")];
        let it = Interp1DBuilder::new(y)
            .x(x)
            .strategy(CubicSpline::new().extrapolate(true))
            .build()
            .unwrap();
        assert_eq!(it.interp_scalar(q("1/2")).unwrap().to_string(), "7/8");
        assert_eq!(it.interp_scalar(q("10")).unwrap().to_string(), "806");
        // p at a few more points, including left extrapolation
        let p = |x: Q| x.powi(3) - Q::TWO * x * x + x / Q::TWO + Q::ONE;
        for s in ["-5/3", "0", "2/7", "2", "7/2", "123456789/1000", "8"] {
            assert_eq!(it.interp_scalar(q(s)).unwrap(), p(q(s)), "at {s}");
        }
    }

    #[test]
    fn periodic_and_linear_and_bilinear() {
        let x = array![q("0"), q("1"), q("3"), q("4"), q("8")];
        let y = array![q("1"), q("1/2"), q("23/2"), q("35"), q("1")];
        let it = Interp1DBuilder::new(y.clone())
            .x(x.clone())
            .strategy(
                CubicSpline::new().extrapolate(true).boundary(BoundaryCondition::Periodic),
            )
            .build()
            .unwrap();
        assert_eq!(it.interp_scalar(q("17/2")).unwrap().to_string(), "15/851");
        assert_eq!(it.interp_scalar(q("1/2")).unwrap().to_string(), "15/851");
        let lin = Interp1DBuilder::new(y).x(x).strategy(Linear::new()).build().unwrap();
        assert_eq!(lin.interp_scalar(q("2")).unwrap().to_string(), "6");
        let z = array![[q("0"), q("1")], [q("2"), q("5")]];
        let bi = Interp2DBuilder::new(z).build().unwrap();
        // 2*(1/2)(2/3) + 1*(1/2)(1/3) + 5*(1/2)(1/3) = 5/3; cross-checked with f64 below
        assert_eq!(bi.interp_scalar(q("1/2"), q("1/3")).unwrap().to_string(), "5/3");
        let bi_f64 = Interp2DBuilder::new(array![[0.0, 1.0], [2.0, 5.0]]).build().unwrap();
        let f: f64 = bi_f64.interp_scalar(0.5, 1.0 / 3.0).unwrap();
        assert!((f - 5.0 / 3.0).abs() < 1e-15, "f64 bilinear gives {f}");
    }

    #[test]
    fn parse_and_display() {
        for (input, expect) in [
            ("0", "0"),
            ("-0", "0"),
            ("0/5", "0"),
            ("-0/5", "0"),
            ("7", "7"),
            ("-7", "-7"),
            ("007", "7"),
            ("6/4", "3/2"),
            ("-6/4", "-3/2"),
            ("6/3", "2"),
            ("-10/5", "-2"),
            ("1/3", "1/3"),
            ("123456789012345678901234567890/3", "41152263004115226300411522630"),
            (
                "-340282366920938463463374607431768211457/18446744073709551616",
                "-340282366920938463463374607431768211457/18446744073709551616",
            ),
        ] {
            let v = q(input);
            assert_eq!(v.to_string(), expect, "parse {input}");
            assert_eq!(format!("{v:?}"), expect);
            assert_eq!(format!("{v:#?}"), expect);
            assert_eq!(q(&v.to_string()), v, "round trip {input}");
        }
        for bad in ["", "-", "/", "1/", "/2", "1/0", "1/-2", "+1", "1 /2", " 1", "1.5", "1/2/3", "--1", "a"] {
            assert!(Q::parse(bad).is_none(), "{bad:?} must not parse");
        }
        assert_eq!(format!("{:>6}|{:<6}|", q("-3/2"), q("5")), "  -3/2|5     |");
        assert_eq!(<Q as Num>::from_str_radix("-6/8", 10), Ok(q("-3/4")));
        assert_eq!(<Q as Num>::from_str_radix("11", 2), Err(ParseQError));
        assert_eq!(<Q as Num>::from_str_radix("x", 10), Err(ParseQError));
    }

    #[test]
    fn constructors() {
        assert_eq!(Q::from_i64(i64::MIN).to_string(), i64::MIN.to_string());
        assert_eq!(Q::from_u64(u64::MAX).to_string(), u64::MAX.to_string());
        assert_eq!(Q::from_i128(i128::MIN).to_string(), i128::MIN.to_string());
        assert_eq!(Q::from_u128(u128::MAX).to_string(), u128::MAX.to_string());
        assert_eq!(Q::from_ratio(-6, 4).to_string(), "-3/2");
        assert_eq!(Q::from_ratio(i64::MIN, 1 << 63).to_string(), "-1");
        assert_eq!(Q::from_ratio(0, 9), Q::ZERO);
        assert_eq!(Q::default(), Q::ZERO);
        assert_eq!(Q::zero(), Q::ZERO);
        assert_eq!(Q::one(), Q::ONE);
        assert!(Q::ZERO.is_zero() && !Q::ONE.is_zero() && q("0/3").is_zero());
        assert_eq!((Q::ZERO.to_string(), Q::ONE.to_string()), ("0".into(), "1".into()));
        assert_eq!((Q::TWO.to_string(), Q::THREE.to_string()), ("2".into(), "3".into()));
    }

    #[test]
    fn arithmetic() {
        assert_eq!((q("1/2") + q("1/3")).to_string(), "5/6");
        assert_eq!((q("1/6") + q("1/3")).to_string(), "1/2");
        assert_eq!((q("1/6") + q("-1/6")).to_string(), "0");
        assert_eq!((q("5/12") + q("7/18")).to_string(), "29/36");
        assert_eq!((q("5/12") - q("7/18")).to_string(), "1/36");
        assert_eq!((q("1/4") + q("3/4")).to_string(), "1");
        assert_eq!((q("1/2") - q("1/3")).to_string(), "1/6");
        assert_eq!((q("2/3") * q("-9/4")).to_string(), "-3/2");
        assert_eq!((q("2/3") * q("3/2")).to_string(), "1");
        assert_eq!((q("2/3") / q("-4/9")).to_string(), "-3/2");
        assert_eq!((q("-7") / q("-14")).to_string(), "1/2");
        assert_eq!((-q("3/5")).to_string(), "-3/5");
        assert_eq!((-Q::ZERO).to_string(), "0");
        assert_eq!(q("-3/5").abs().to_string(), "3/5");
        assert_eq!(q("3/5").recip().to_string(), "5/3");
        assert_eq!(q("-3/5").recip().to_string(), "-5/3");
        // reference operands
        assert_eq!(&q("1/2") + &q("1/2"), Q::ONE);
        assert_eq!(q("1/2") * &q("4"), Q::TWO);
        assert_eq!(&q("1/2") - q("1/2"), Q::ZERO);
        assert_eq!(-&q("1/2"), q("-1/2"));
        // assign ops
        let mut a = q("1/2");
        a += q("1/3");
        a -= q("1/6");
        a *= q("9");
        a /= q("4");
        assert_eq!(a.to_string(), "3/2");
        a %= Q::ONE;
        assert_eq!(a.to_string(), "1/2");
        // truncated remainder, like the float `%`
        assert_eq!((q("7/2") % q("2")).to_string(), "3/2");
        assert_eq!((q("-7/2") % q("2")).to_string(), "-3/2");
        assert_eq!((q("7/2") % q("-2")).to_string(), "3/2");
        assert_eq!((q("-7/2") % q("-2")).to_string(), "-3/2");
        assert_eq!((q("6") % q("3/2")).to_string(), "0");
        // sums and products
        let v = [q("1/2"), q("1/3"), q("1/6")];
        assert_eq!(v.iter().sum::<Q>(), Q::ONE);
        assert_eq!(v.iter().copied().sum::<Q>(), Q::ONE);
        assert_eq!(v.iter().product::<Q>(), q("1/36"));
        assert_eq!(v.iter().copied().product::<Q>(), q("1/36"));
        // big operands: (2^200 + 1)/3^100 squared and divided back
        let big = q("1606938044258990275541962092341162602522202993782792835301377/515377520732011331036461129765621272702107522001");
        assert_eq!(big * big / big, big);
        assert_eq!((big + big - big - big).to_string(), "0");
        assert_eq!(big.num_bits(), 201 + 159);
    }

    #[test]
    fn ndarray_arithmetic() {
        let a: Array1<Q> = array![q("1/2"), q("1/3")];
        let b: Array1<Q> = array![q("1/6"), q("2/3")];
        assert_eq!(&a - &b, array![q("1/3"), q("-1/3")]);
        assert_eq!(&a + &b, array![q("2/3"), Q::ONE]);
        assert_eq!(a.clone() * b.clone(), array![q("1/12"), q("2/9")]);
        assert_eq!(a.clone() / q("2"), array![q("1/4"), q("1/6")]);
        assert_eq!(&a * q("6"), array![Q::THREE, Q::TWO]);
        assert_eq!(a.sum(), q("5/6"));
        assert_eq!(Array1::<Q>::zeros(3), array![Q::ZERO, Q::ZERO, Q::ZERO]);
    }

    #[test]
    fn ordering() {
        let sorted = [
            "-100000000000000000000000000000000000000001/2",
            "-7/2",
            "-1",
            "-1/2",
            "-1/3",
            "-1/100000000000000000000000000000000000000000",
            "0",
            "1/100000000000000000000000000000000000000000",
            "1/3",
            "1/2",
            "2/3",
            "1",
            "3/2",
            "3",
            "100000000000000000000000000000000000000000/3",
        ];
        for (i, a) in sorted.iter().enumerate() {
            for (j, b) in sorted.iter().enumerate() {
                let (x, y) = (q(a), q(b));
                assert_eq!(x.partial_cmp(&y), Some(i.cmp(&j)), "{a} vs {b}");
                assert_eq!(x == y, i == j);
                assert_eq!(x < y, i < j);
                assert_eq!(x >= y, i >= j);
            }
        }
        // equality is by value, not by handle
        let (a, b) = (q("2/4"), q("1/2"));
        assert_ne!(a.handle(), b.handle());
        assert_eq!(a, b);
        // close values that need the full cross multiplication
        assert!(q("100000000000000000000/100000000000000000001") < q("100000000000000000001/100000000000000000002"));
        assert!(q("-100000000000000000000/100000000000000000001") > q("-100000000000000000001/100000000000000000002"));
    }

    #[test]
    fn floor_trunc_integer() {
        for (s, floor, trunc) in [
            ("7/2", "3", "3"),
            ("-7/2", "-4", "-3"),
            ("4", "4", "4"),
            ("-4", "-4", "-4"),
            ("1/3", "0", "0"),
            ("-1/3", "-1", "0"),
            ("0", "0", "0"),
        ] {
            assert_eq!(q(s).floor().to_string(), floor);
            assert_eq!(q(s).trunc().to_string(), trunc);
        }
        assert!(q("4/2").is_integer());
        assert!(!q("1/2").is_integer());
        assert!(q("-1/2").is_negative() && !q("-1/2").is_positive());
        assert!(!Q::ZERO.is_negative() && !Q::ZERO.is_positive());
    }

    #[test]
    fn to_primitive_follows_float_cast_rules() {
        // usize / u64
        assert_eq!(q("-1").to_usize(), None);
        assert_eq!(q("-1/2").to_usize(), Some(0));
        assert_eq!(q("-999999/1000000").to_u64(), Some(0));
        assert_eq!(q("-1000001/1000000").to_u64(), None);
        assert_eq!(q("7/2").to_usize(), Some(3));
        assert_eq!(q("0").to_usize(), Some(0));
        assert_eq!(q("18446744073709551615").to_u64(), Some(u64::MAX));
        assert_eq!(q("36893488147419103231/2").to_u64(), Some(u64::MAX)); // 2^64 - 1/2
        assert_eq!(q("18446744073709551616").to_u64(), None);
        // i64
        assert_eq!(q("-7/2").to_i64(), Some(-3));
        assert_eq!(q("9223372036854775807").to_i64(), Some(i64::MAX));
        assert_eq!(q("18446744073709551615/2").to_i64(), Some(i64::MAX)); // 2^63 - 1/2
        assert_eq!(q("9223372036854775808").to_i64(), None);
        assert_eq!(q("-9223372036854775808").to_i64(), Some(i64::MIN));
        assert_eq!(q("-18446744073709551617/2").to_i64(), Some(i64::MIN)); // -2^63 - 1/2
        assert_eq!(q("-9223372036854775809").to_i64(), None);
        // narrower types go through the same truncation
        assert_eq!(q("-257/2").to_i8(), Some(-128));
        assert_eq!(q("-129").to_i8(), None);
        assert_eq!(q("511/2").to_u8(), Some(255));
        assert_eq!(q("256").to_u8(), None);
        assert_eq!(q("-170141183460469231731687303715884105728").to_i128(), Some(i128::MIN));
        assert_eq!(q("340282366920938463463374607431768211456").to_u128(), None);
        // same answers as the f64 casts of num-traits
        for s in ["-1", "-1/2", "7/2", "-7/2", "255/2", "1/1024", "-129", "4294967296"] {
            let (x, f) = (q(s), q(s).to_f64_approx());
            assert_eq!(x.to_usize(), f.to_usize(), "{s}");
            assert_eq!(x.to_i64(), f.to_i64(), "{s}");
            assert_eq!(x.to_i8(), f.to_i8(), "{s}");
            assert_eq!(x.to_u32(), f.to_u32(), "{s}");
        }
        // via the generic cast used by the crate
        assert_eq!(cast::<Q, usize>(q("7/2")), Some(3));
        assert_eq!(cast::<Q, usize>(q("-1")), None);
    }

    #[test]
    fn f64_conversions() {
        for (f, s) in [
            (0.0, "0"),
            (-0.0, "0"),
            (1.0, "1"),
            (-2.5, "-5/2"),
            (0.1, "3602879701896397/36028797018963968"),
            (1e22, "10000000000000000000000"),
            (f64::MIN_POSITIVE, ""),
            (5e-324, ""),
            (f64::MAX, ""),
            (-1.0e-7, ""),
        ] {
            let x = Q::from_f64_exact(f).unwrap();
            if !s.is_empty() {
                assert_eq!(x.to_string(), s);
            }
            assert_eq!(x.to_f64_approx(), f, "round trip of {f:e}");
            assert_eq!(x.to_f64(), Some(f));
        }
        assert!(Q::from_f64_exact(f64::NAN).is_none());
        assert!(Q::from_f64_exact(f64::INFINITY).is_none());
        assert!(Q::from_f64_exact(f64::NEG_INFINITY).is_none());
        assert_eq!(Q::from_f64_exact(5e-324).unwrap(), Q::ONE / Q::TWO.powi(1074));
        // correctly rounded quotients
        assert_eq!(q("1/3").to_f64_approx(), 1.0 / 3.0);
        assert_eq!(q("-2/3").to_f64_approx(), -2.0 / 3.0);
        assert_eq!(q("1/10").to_f64_approx(), 0.1);
        assert_eq!(q("9007199254740993").to_f64_approx(), 9007199254740992.0); // 2^53+1: tie to even
        assert_eq!(q("9007199254740995").to_f64_approx(), 9007199254740996.0);
        assert_eq!(q("18014398509481987/2").to_f64_approx(), 9007199254740994.0); // just above a tie
        assert_eq!(Q::TWO.powi(1024).to_f64_approx(), f64::INFINITY);
        assert_eq!((-Q::TWO.powi(5000)).to_f64_approx(), f64::NEG_INFINITY);
        assert_eq!(Q::TWO.powi(-5000).to_f64_approx(), 0.0);
        assert_eq!(Q::TWO.powi(-1074).to_f64_approx(), 5e-324);
        assert_eq!(q("1/3").to_f32(), Some(1.0f32 / 3.0));
    }

    #[test]
    fn num_cast() {
        // the calls the crate makes
        assert_eq!(cast::<f64, Q>(0.0), Some(Q::ZERO));
        assert_eq!(cast::<f64, Q>(1.0), Some(Q::ONE));
        assert_eq!(cast::<f64, Q>(2.0), Some(Q::TWO));
        assert_eq!(cast::<f64, Q>(3.0), Some(Q::THREE));
        assert_eq!(cast::<usize, Q>(0), Some(Q::ZERO));
        assert_eq!(cast::<usize, Q>(41), Some(q("41")));
        // the small constants do not grow the arena
        let before = arena_len();
        let _ = (cast::<f64, Q>(0.0), cast::<f64, Q>(3.0), cast::<usize, Q>(2));
        assert_eq!(arena_len(), before);
        // integers beyond 2^53 stay exact
        assert_eq!(cast::<u64, Q>(u64::MAX), Some(q("18446744073709551615")));
        assert_eq!(cast::<usize, Q>((1 << 53) + 1), Some(q("9007199254740993")));
        assert_eq!(cast::<i64, Q>(i64::MIN), Some(q("-9223372036854775808")));
        assert_eq!(cast::<i128, Q>(i128::MIN), Some(Q::from_i128(i128::MIN)));
        assert_eq!(cast::<u128, Q>(u128::MAX), Some(Q::from_u128(u128::MAX)));
        assert_eq!(cast::<i8, Q>(-5), Some(q("-5")));
        // floats are exact
        assert_eq!(cast::<f64, Q>(0.5), Some(q("1/2")));
        assert_eq!(cast::<f64, Q>(-0.75), Some(q("-3/4")));
        assert_eq!(cast::<f64, Q>(-0.0), Some(Q::ZERO));
        assert_eq!(cast::<f32, Q>(0.1), Q::from_f64_exact(0.1f32 as f64));
        assert_eq!(cast::<f64, Q>(1e300), Q::from_f64_exact(1e300));
        assert_eq!(cast::<f64, Q>(-1e300), Q::from_f64_exact(-1e300));
        assert_eq!(cast::<f64, Q>(f64::NAN), None);
        assert_eq!(cast::<f64, Q>(f64::INFINITY), None);
        assert_eq!(cast::<f64, Q>(f64::NEG_INFINITY), None);
        // Q -> Q
        assert_eq!(cast::<Q, Q>(q("7/2")), Some(q("7/2")));
        assert_eq!(cast::<Q, Q>(q("-12")), Some(q("-12")));
    }

    #[test]
    fn pow() {
        assert_eq!(q("3/2").pow(Q::TWO).to_string(), "9/4");
        assert_eq!(q("-3/2").pow(Q::THREE).to_string(), "-27/8");
        assert_eq!(q("-3/2").pow(Q::TWO).to_string(), "9/4");
        assert_eq!(q("3/2").pow(Q::ZERO).to_string(), "1");
        assert_eq!(Q::ZERO.pow(Q::ZERO).to_string(), "1");
        assert_eq!(Q::ZERO.pow(q("5")).to_string(), "0");
        assert_eq!(q("3/2").pow(q("-2")).to_string(), "4/9");
        assert_eq!(q("-2").pow(q("-3")).to_string(), "-1/8");
        assert_eq!(q("3/2").pow(&Q::TWO).to_string(), "9/4");
        assert_eq!(q("10").pow(q("40")).to_string(), format!("1{}", "0".repeat(40)));
        assert_eq!(q("2/3").powi(-2).to_string(), "9/4");
    }

    #[test]
    #[should_panic(expected = "Q: non-integer power")]
    fn pow_non_integer() {
        let _ = Q::TWO.pow(q("1/2"));
    }

    #[test]
    #[should_panic(expected = "Q: division by zero")]
    fn pow_zero_negative() {
        let _ = Q::ZERO.pow(q("-1"));
    }

    #[test]
    fn euclid() {
        assert_eq!(q("-7/2").rem_euclid(&q("2")).to_string(), "1/2");
        assert_eq!(q("-7/2").div_euclid(&q("2")).to_string(), "-2");
        assert_eq!(q("-7/2").rem_euclid(&q("-2")).to_string(), "1/2");
        assert_eq!(q("-7/2").div_euclid(&q("-2")).to_string(), "2");
        assert_eq!(q("7/2").rem_euclid(&q("2")).to_string(), "3/2");
        assert_eq!(q("7/2").rem_euclid(&q("-2")).to_string(), "3/2");
        assert_eq!(q("7/2").div_euclid(&q("-2")).to_string(), "-1");
        assert_eq!(q("17/2").rem_euclid(&q("8")).to_string(), "1/2");
        assert_eq!(q("8").rem_euclid(&q("8")).to_string(), "0");
        assert_eq!(q("-8").rem_euclid(&q("8")).to_string(), "0");
        for a in ["-22/7", "-3", "-1/2", "0", "1/3", "5", "22/7"] {
            for b in ["-5/3", "-1", "1/4", "2", "7/3"] {
                let (a, b) = (q(a), q(b));
                let (d, r) = (a.div_euclid(&b), a.rem_euclid(&b));
                assert!(d.is_integer());
                assert!(Q::ZERO <= r && r < b.abs());
                assert_eq!(b * d + r, a);
                // truncated flavour
                let t = a % b;
                assert!(t.abs() < b.abs());
                assert!(t.is_zero() || t.is_negative() == a.is_negative());
                assert!(((a - t) / b).is_integer());
            }
        }
    }

    #[test]
    #[should_panic(expected = "Q: division by zero")]
    fn div_by_zero() {
        let _ = Q::ONE / q("0/7");
    }

    #[test]
    #[should_panic(expected = "Q: division by zero")]
    fn rem_by_zero() {
        let _ = Q::ONE % Q::ZERO;
    }

    #[test]
    #[should_panic(expected = "Q: division by zero")]
    fn rem_euclid_by_zero() {
        let _ = Q::ONE.rem_euclid(&Q::ZERO);
    }

    #[test]
    #[should_panic(expected = "Q: division by zero")]
    fn div_euclid_by_zero() {
        let _ = Q::ONE.div_euclid(&Q::ZERO);
    }

    #[test]
    #[should_panic(expected = "Q: division by zero")]
    fn ratio_zero_denominator() {
        let _ = Q::from_ratio(1, 0);
    }

    #[test]
    fn arena_reset_keeps_constants() {
        reset_arena();
        assert_eq!(arena_len(), 4);
        let a = q("5/7");
        let b = a * a + Q::ONE;
        assert_eq!(arena_len(), 7); // a, a*a, b
        assert_eq!(b.to_string(), "74/49");
        // results equal to a seeded constant reuse its handle
        let one = a / a;
        assert_eq!(one.handle(), Q::ONE.handle());
        assert_eq!((q("9/3").handle(), q("0/4").handle()), (3, 0));
        assert_eq!(arena_len(), 7);
        assert!(arena_max_bits() >= b.num_bits());
        reset_arena();
        assert_eq!(arena_len(), 4);
        assert_eq!((Q::ZERO + Q::ONE + Q::TWO + Q::THREE).to_string(), "6");
        assert_eq!(one, Q::ONE);
        // each thread has its own arena with the same constants
        std::thread::spawn(|| {
            assert_eq!(arena_len(), 4);
            assert_eq!((Q::TWO * Q::THREE).to_string(), "6");
        })
        .join()
        .unwrap();
    }

    #[test]
    #[should_panic(expected = "stale handle")]
    fn stale_handle_is_detected_when_out_of_range() {
        reset_arena();
        let a = q("5/7");
        reset_arena();
        let _ = a + Q::ONE;
    }

    /// xorshift64*, good enough for test data
    struct Rng(u64);
    impl Rng {
        fn next(&mut self) -> u64 {
            self.0 ^= self.0 >> 12;
            self.0 ^= self.0 << 25;
            self.0 ^= self.0 >> 27;
            self.0.wrapping_mul(0x2545_f491_4f6c_dd1d)
        }
        /// a value with exactly `bits` bits
        fn bits(&mut self, bits: u32) -> u64 {
            (self.next() >> (64 - bits)) | (1 << (bits - 1))
        }
    }

    #[test]
    fn spline_40_knots_timing() {
        reset_arena();
        let mut rng = Rng(0x9e37_79b9_7f4a_7c15);
        let n = 40;
        // strictly increasing knots i + p/q with 0 < p/q < 1 and ~20 bit p, q
        let x: Array1<Q> = (0..n)
            .map(|i| {
                let den = rng.bits(20);
                let num = rng.bits(19);
                Q::from_i64(i) + Q::from_ratio(num as i64, den)
            })
            .collect();
        let y: Array1<Q> = (0..n)
            .map(|_| {
                let v = Q::from_ratio(rng.bits(20) as i64, rng.bits(20));
                if rng.next() & 1 == 0 {
                    v
                } else {
                    -v
                }
            })
            .collect();
        assert!(x.windows(2).into_iter().all(|w| w[0] < w[1]));

        let start = std::time::Instant::now();
        let it = Interp1DBuilder::new(y.clone())
            .x(x.clone())
            .strategy(CubicSpline::new().extrapolate(true))
            .build()
            .unwrap();
        let build = start.elapsed();
        let build_ops = arena_len();

        let start = std::time::Instant::now();
        // the spline interpolates its data ...
        for i in 0..n as usize {
            assert_eq!(it.interp_scalar(x[i]).unwrap(), y[i]);
        }
        // ... and evaluating between the knots produces the largest numbers
        let mut max_result_bits = 0;
        for i in 0..n as usize - 1 {
            let mid = (x[i] + x[i + 1]) / Q::TWO;
            max_result_bits = max_result_bits.max(it.interp_scalar(mid).unwrap().num_bits());
        }
        let eval = start.elapsed();
        println!(
            "40-knot not-a-knot spline over Q: build {build:?} ({build_ops} arena values), \
             {} evaluations {eval:?}, max num_bits in arena {}, max num_bits of a result {}",
            2 * n - 1,
            arena_max_bits(),
            max_result_bits
        );
        assert!(build.as_secs_f64() < 1.0, "building took {build:?}");
    }
}
