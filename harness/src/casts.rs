//! C19 (to be filled in)
pub fn main() {
    println!("SUMMARY casts=0 failures=0");
}
