//! C19: the rank-1 fast path of `interp_array_into` relabels identical types only.
//!
//! `Interp1D::interp_array_into` and `Interp2D::interp_array_into` call `cast_unchecked` when
//! the query dimension type is `Ix1`. Built with `--cfg ndarray_interp_verif`, the crate counts
//! these calls and records every call whose source and destination type differ.
//!
//! Part A enumerates every fast-path instantiation (data dimension type x element type x storage
//! kind x interpolator). Each one runs the same three queries through the fast path (`Ix1` query),
//! through the general per-element path (`IxDyn` query of runtime rank 1) and through single
//! `interp` calls, and compares the three results bit for bit.
//!
//! Part B enumerates query dimension types that must NOT take the fast path and compares the
//! batch result with single `interp` calls.
//!
//! Output fields of a `cast` line:
//!  - `delta`: `cast_unchecked` calls during the batch call under test (A: fast path, B: general)
//!  - `general_delta`: A: calls during the general-path batch call, B: calls during the single
//!    `interp` calls; always expected to be 0
//!  - `out_ty` / `want_ty`: `type_name` of the dimension type the buffer is cast from / to, with
//!    blanks removed so that a line splits into `key=value` tokens
//!  - `agree`: 1 iff every compared result has the same shape and the same bits

use std::any::type_name;
use std::panic::{catch_unwind, AssertUnwindSafe};

use ndarray::{Array, ArrayViewD, Axis, DimAdd, Dimension, Ix0, Ix1, Ix2, Ix3, Ix4, Ix5, Ix6, IxDyn};
use ndarray_interp::interp1d::Interp1DBuilder;
use ndarray_interp::interp2d::Interp2DBuilder;
use ndarray_interp::verif_hooks::{cast_count, cast_mismatches};

/// element types of the enumeration: test values and a bit-exact image
trait Elem: Copy + 'static {
    fn bits(self) -> u64;
    /// data value at flat (row-major) position `i`
    fn datum(i: usize) -> Self;
    /// `i`-th query along the first interpolated axis, inside `[0, 2]`
    fn qx(i: usize) -> Self;
    /// `i`-th query along the second interpolated axis, inside `[0, 2]`
    fn qy(i: usize) -> Self;
}

macro_rules! impl_elem_float {
    ($t:ty) => {
        impl Elem for $t {
            fn bits(self) -> u64 {
                self.to_bits() as u64
            }
            fn datum(i: usize) -> Self {
                ((i * 37 % 101) as f64 * 0.173 - 3.1 + i as f64 / 7.0) as $t
            }
            fn qx(i: usize) -> Self {
                [0.37, 1.0, 1.9, 0.0, 2.0, 1.5][i % 6]
            }
            fn qy(i: usize) -> Self {
                [1.61, 0.25, 2.0, 1.0, 0.5, 0.77][i % 6]
            }
        }
    };
}

// integers: even data on the default index axes 0, 1, 2 and queries that hit knots, so every
// intermediate value of the linear formula is an exact integer
macro_rules! impl_elem_int {
    ($t:ty) => {
        impl Elem for $t {
            fn bits(self) -> u64 {
                self as i64 as u64
            }
            fn datum(i: usize) -> Self {
                2 * ((i * 7) % 11) as $t - 6
            }
            fn qx(i: usize) -> Self {
                [0, 1, 2, 1, 2, 0][i % 6]
            }
            fn qy(i: usize) -> Self {
                [2, 0, 1, 1, 0, 2][i % 6]
            }
        }
    };
}

impl_elem_float!(f64);
impl_elem_float!(f32);
impl_elem_int!(i32);
impl_elem_int!(i64);

/// shape and bit image of an array in logical order
#[derive(Debug, PartialEq, Eq)]
struct Flat {
    shape: Vec<usize>,
    bits: Vec<u64>,
}

fn flat<T: Elem>(a: ArrayViewD<'_, T>) -> Flat {
    Flat {
        shape: a.shape().to_vec(),
        bits: a.iter().map(|v| v.bits()).collect(),
    }
}

/// the single-query results stacked in query order: what the batch result has to equal
struct Stack {
    query_shape: Vec<usize>,
    item_shape: Option<Vec<usize>>,
    bits: Vec<u64>,
    consistent: bool,
}

impl Stack {
    fn new(query_shape: &[usize]) -> Self {
        Stack {
            query_shape: query_shape.to_vec(),
            item_shape: None,
            bits: Vec::new(),
            consistent: true,
        }
    }

    fn push(&mut self, item: Flat) {
        match &self.item_shape {
            None => self.item_shape = Some(item.shape),
            Some(s) => self.consistent &= *s == item.shape,
        }
        self.bits.extend(item.bits);
    }

    fn finish(self) -> Option<Flat> {
        let mut shape = self.query_shape;
        shape.extend(self.item_shape?);
        self.consistent.then_some(Flat {
            shape,
            bits: self.bits,
        })
    }
}

/// `interp_axes` leading axes of length 3, every trailing axis of length 2; dynamic rank: 3
fn data_shape(ndim: Option<usize>, interp_axes: usize) -> Vec<usize> {
    (0..ndim.unwrap_or(3))
        .map(|ax| if ax < interp_axes { 3 } else { 2 })
        .collect()
}

fn make<T: Elem, D: Dimension>(shape: &[usize], value: fn(usize) -> T) -> Array<T, D> {
    let len = shape.iter().product();
    Array::from_shape_vec(IxDyn(shape), (0..len).map(value).collect())
        .expect("shape")
        .into_dimensionality::<D>()
        .expect("rank")
}

/// the same logical contents, stored back to front with stride -1 when `rev` (a contiguous but
/// non-standard layout: the fast path must pair element `i` of the query with row `i` of the result)
fn relayout<T: Clone>(a: &Array<T, Ix1>, rev: bool) -> Array<T, Ix1> {
    if !rev {
        return a.clone();
    }
    let mut r: Array<T, Ix1> = a.iter().rev().cloned().collect();
    r.invert_axis(Axis(0));
    r
}

fn tn<T>() -> String {
    type_name::<T>().replace(' ', "")
}

struct Id {
    interp: &'static str,
    t: &'static str,
    storage: &'static str,
    d: &'static str,
    dq: &'static str,
}

/// what one instantiation observed
struct Outcome {
    delta: usize,
    general_delta: usize,
    /// `cast_unchecked` calls outside the two counted windows; 0 expected
    stray_delta: usize,
    batch: Flat,
    /// part A only: the same queries through the general path
    general: Option<Flat>,
    singles: Option<Flat>,
}

#[derive(Default)]
struct Report {
    lines: usize,
    failures: usize,
}

impl Report {
    fn record(
        &mut self,
        id: Id,
        tys: Option<(String, String)>,
        expected: usize,
        mismatches_before: usize,
        res: std::thread::Result<Outcome>,
    ) {
        self.lines += 1;
        let head = format!(
            "interp={} T={} storage={} D={} Dq={}",
            id.interp, id.t, id.storage, id.d, id.dq
        );
        let mut reasons: Vec<String> = Vec::new();
        let fields = match res {
            Err(payload) => {
                let msg = payload
                    .downcast_ref::<String>()
                    .cloned()
                    .or_else(|| payload.downcast_ref::<&str>().map(|s| s.to_string()))
                    .unwrap_or_else(|| "?".into());
                let msg: String = msg.split_whitespace().collect::<Vec<_>>().join("_");
                reasons.push(format!("panic:{msg}"));
                format!("{head} panic=1")
            }
            Ok(o) => {
                let (out_ty, want_ty) = tys.unwrap_or_else(|| ("-".into(), "-".into()));
                let agree = o.singles.as_ref() == Some(&o.batch)
                    && o.general.as_ref().is_none_or(|g| *g == o.batch);
                if o.delta != expected {
                    reasons.push(format!("delta:{}!={expected}", o.delta));
                }
                if o.general_delta != 0 {
                    reasons.push(format!("general_delta:{}", o.general_delta));
                }
                if o.stray_delta != 0 {
                    reasons.push(format!("stray_delta:{}", o.stray_delta));
                }
                if out_ty != want_ty {
                    reasons.push("out_ty!=want_ty".into());
                }
                if !agree {
                    if o.singles.is_none() {
                        reasons.push("single_shapes_differ".into());
                    } else if o.singles.as_ref() != Some(&o.batch) {
                        reasons.push("batch!=single".into());
                    }
                    if o.general.as_ref().is_some_and(|g| *g != o.batch) {
                        reasons.push("fast!=general".into());
                    }
                }
                format!(
                    "{head} delta={} general_delta={} out_ty={out_ty} want_ty={want_ty} agree={}",
                    o.delta, o.general_delta, agree as u8
                )
            }
        };
        let new_mismatches = cast_mismatches().len() - mismatches_before;
        if new_mismatches != 0 {
            reasons.push(format!("hook_mismatches:{new_mismatches}"));
        }
        println!("cast {fields}");
        if !reasons.is_empty() {
            self.failures += 1;
            println!("FAIL {fields} reason={}", reasons.join(","));
        }
    }
}

/// bind `$name` to `$base` in the requested storage kind
macro_rules! storage {
    (owned, $base:ident => $name:ident) => {
        let $name = $base.clone();
    };
    (view, $base:ident => $name:ident) => {
        let $name = $base.view();
    };
    (shared, $base:ident => $name:ident) => {
        let $name = $base.to_shared();
    };
}

macro_rules! a1d {
    ($rep:ident, $T:ty, $stor:ident, $D:ty, $dname:literal) => {{
        fn run(rep: &mut Report, rev: bool) {
            let id = Id {
                interp: "1d",
                t: stringify!($T),
                storage: stringify!($stor),
                d: $dname,
                dq: if rev { "Ix1rev" } else { "Ix1" },
            };
            let tys = (
                tn::<<Ix1 as DimAdd<<$D as Dimension>::Smaller>>::Output>(),
                tn::<$D>(),
            );
            let before = cast_mismatches().len();
            let res = catch_unwind(AssertUnwindSafe(|| {
                let shape = data_shape(<$D as Dimension>::NDIM, 1);
                let base: Array<$T, $D> = make(&shape, <$T as Elem>::datum);
                let qbase: Array<$T, Ix1> = make(&[3], <$T as Elem>::qx);
                let qlaid = relayout(&qbase, rev);
                storage!($stor, base => data);
                storage!($stor, qlaid => query);
                let interp = Interp1DBuilder::new(data).build().expect("build");
                let start = cast_count();
                let c0 = cast_count();
                let fast = interp.interp_array(&query).expect("fast path");
                let c1 = cast_count();
                let query_dyn = query.clone().into_dyn();
                let c2 = cast_count();
                let general = interp.interp_array(&query_dyn).expect("general path");
                let c3 = cast_count();
                let mut singles = Stack::new(&[3]);
                for &q in qbase.iter() {
                    let one = interp.interp(q).expect("single query");
                    singles.push(flat(one.view().into_dyn()));
                }
                let end = cast_count();
                Outcome {
                    delta: c1 - c0,
                    general_delta: c3 - c2,
                    stray_delta: (end - start) - (c1 - c0) - (c3 - c2),
                    batch: flat(fast.view().into_dyn()),
                    general: Some(flat(general.view().into_dyn())),
                    singles: singles.finish(),
                }
            }));
            rep.record(id, Some(tys), 2, before, res);
        }
        run($rep, false);
        run($rep, true);
    }};
}

macro_rules! a2d {
    ($rep:ident, $T:ty, $stor:ident, $D:ty, $dname:literal) => {{
        fn run(rep: &mut Report, rev: bool) {
            let id = Id {
                interp: "2d",
                t: stringify!($T),
                storage: stringify!($stor),
                d: $dname,
                dq: if rev { "Ix1rev" } else { "Ix1" },
            };
            let tys = (
                tn::<<Ix1 as DimAdd<<<$D as Dimension>::Smaller as Dimension>::Smaller>>::Output>(),
                tn::<<$D as Dimension>::Smaller>(),
            );
            let before = cast_mismatches().len();
            let res = catch_unwind(AssertUnwindSafe(|| {
                let shape = data_shape(<$D as Dimension>::NDIM, 2);
                let base: Array<$T, $D> = make(&shape, <$T as Elem>::datum);
                let xbase: Array<$T, Ix1> = make(&[3], <$T as Elem>::qx);
                let ybase: Array<$T, Ix1> = make(&[3], <$T as Elem>::qy);
                let xlaid = relayout(&xbase, rev);
                let ylaid = relayout(&ybase, rev);
                storage!($stor, base => data);
                storage!($stor, xlaid => xs);
                storage!($stor, ylaid => ys);
                let interp = Interp2DBuilder::new(data).build().expect("build");
                let start = cast_count();
                let c0 = cast_count();
                let fast = interp.interp_array(&xs, &ys).expect("fast path");
                let c1 = cast_count();
                let xs_dyn = xs.clone().into_dyn();
                let ys_dyn = ys.clone().into_dyn();
                let c2 = cast_count();
                let general = interp.interp_array(&xs_dyn, &ys_dyn).expect("general path");
                let c3 = cast_count();
                let mut singles = Stack::new(&[3]);
                for (&x, &y) in xbase.iter().zip(ybase.iter()) {
                    let one = interp.interp(x, y).expect("single query");
                    singles.push(flat(one.view().into_dyn()));
                }
                let end = cast_count();
                Outcome {
                    delta: c1 - c0,
                    general_delta: c3 - c2,
                    stray_delta: (end - start) - (c1 - c0) - (c3 - c2),
                    batch: flat(fast.view().into_dyn()),
                    general: Some(flat(general.view().into_dyn())),
                    singles: singles.finish(),
                }
            }));
            rep.record(id, Some(tys), 3, before, res);
        }
        run($rep, false);
        run($rep, true);
    }};
}

// Part C: x and y query arrays of different storage kinds (each cast must still relabel identical types)
macro_rules! c2d {
    ($rep:ident, $T:ty, $sx:ident, $sy:ident, $D:ty, $dname:literal) => {{
        fn run(rep: &mut Report, rev: bool) {
            let id = Id {
                interp: "2d",
                t: stringify!($T),
                storage: concat!(stringify!($sx), "+", stringify!($sy)),
                d: $dname,
                dq: if rev { "Ix1rev" } else { "Ix1" },
            };
            let tys = (
                tn::<<Ix1 as DimAdd<<<$D as Dimension>::Smaller as Dimension>::Smaller>>::Output>(),
                tn::<<$D as Dimension>::Smaller>(),
            );
            let before = cast_mismatches().len();
            let res = catch_unwind(AssertUnwindSafe(|| {
                let shape = data_shape(<$D as Dimension>::NDIM, 2);
                let base: Array<$T, $D> = make(&shape, <$T as Elem>::datum);
                let xbase: Array<$T, Ix1> = make(&[3], <$T as Elem>::qx);
                let ybase: Array<$T, Ix1> = make(&[3], <$T as Elem>::qy);
                let xlaid = relayout(&xbase, rev);
                let ylaid = relayout(&ybase, rev);
                storage!(owned, base => data);
                storage!($sx, xlaid => xs);
                storage!($sy, ylaid => ys);
                let interp = Interp2DBuilder::new(data).build().expect("build");
                let start = cast_count();
                let c0 = cast_count();
                let fast = interp.interp_array(&xs, &ys).expect("fast path");
                let c1 = cast_count();
                let xs_dyn = xs.clone().into_dyn();
                let ys_dyn = ys.clone().into_dyn();
                let c2 = cast_count();
                let general = interp.interp_array(&xs_dyn, &ys_dyn).expect("general path");
                let c3 = cast_count();
                let mut singles = Stack::new(&[3]);
                for (&x, &y) in xbase.iter().zip(ybase.iter()) {
                    let one = interp.interp(x, y).expect("single query");
                    singles.push(flat(one.view().into_dyn()));
                }
                let end = cast_count();
                Outcome {
                    delta: c1 - c0,
                    general_delta: c3 - c2,
                    stray_delta: (end - start) - (c1 - c0) - (c3 - c2),
                    batch: flat(fast.view().into_dyn()),
                    general: Some(flat(general.view().into_dyn())),
                    singles: singles.finish(),
                }
            }));
            rep.record(id, Some(tys), 3, before, res);
        }
        run($rep, false);
        run($rep, true);
    }};
}

macro_rules! b1d {
    ($rep:ident, $Dq:ty, $dqname:literal, $qshape:expr, $D:ty, $dname:literal) => {{
        fn run(rep: &mut Report) {
            let id = Id {
                interp: "1d",
                t: "f64",
                storage: "owned",
                d: $dname,
                dq: $dqname,
            };
            let before = cast_mismatches().len();
            let res = catch_unwind(AssertUnwindSafe(|| {
                let qshape: &[usize] = &$qshape;
                let shape = data_shape(<$D as Dimension>::NDIM, 1);
                let data: Array<f64, $D> = make(&shape, <f64 as Elem>::datum);
                let query: Array<f64, $Dq> = make(qshape, <f64 as Elem>::qx);
                let interp = Interp1DBuilder::new(data).build().expect("build");
                let c0 = cast_count();
                let batch = interp.interp_array(&query).expect("general path");
                let c1 = cast_count();
                let mut singles = Stack::new(qshape);
                for &q in query.iter() {
                    let one = interp.interp(q).expect("single query");
                    singles.push(flat(one.view().into_dyn()));
                }
                let c2 = cast_count();
                Outcome {
                    delta: c1 - c0,
                    general_delta: c2 - c1,
                    stray_delta: 0,
                    batch: flat(batch.view().into_dyn()),
                    general: None,
                    singles: singles.finish(),
                }
            }));
            rep.record(id, None, 0, before, res);
        }
        run($rep);
    }};
}

macro_rules! b2d {
    ($rep:ident, $Dq:ty, $dqname:literal, $qshape:expr, $D:ty, $dname:literal) => {{
        fn run(rep: &mut Report) {
            let id = Id {
                interp: "2d",
                t: "f64",
                storage: "owned",
                d: $dname,
                dq: $dqname,
            };
            let before = cast_mismatches().len();
            let res = catch_unwind(AssertUnwindSafe(|| {
                let qshape: &[usize] = &$qshape;
                let shape = data_shape(<$D as Dimension>::NDIM, 2);
                let data: Array<f64, $D> = make(&shape, <f64 as Elem>::datum);
                let xs: Array<f64, $Dq> = make(qshape, <f64 as Elem>::qx);
                let ys: Array<f64, $Dq> = make(qshape, <f64 as Elem>::qy);
                let interp = Interp2DBuilder::new(data).build().expect("build");
                let c0 = cast_count();
                let batch = interp.interp_array(&xs, &ys).expect("general path");
                let c1 = cast_count();
                let mut singles = Stack::new(qshape);
                for (&x, &y) in xs.iter().zip(ys.iter()) {
                    let one = interp.interp(x, y).expect("single query");
                    singles.push(flat(one.view().into_dyn()));
                }
                let c2 = cast_count();
                Outcome {
                    delta: c1 - c0,
                    general_delta: c2 - c1,
                    stray_delta: 0,
                    batch: flat(batch.view().into_dyn()),
                    general: None,
                    singles: singles.finish(),
                }
            }));
            rep.record(id, None, 0, before, res);
        }
        run($rep);
    }};
}

/// `$m!($args.., D, "D")` for every data dimension type of `Interp1D`
macro_rules! each_d_1d {
    ($m:ident, $($args:tt)*) => {
        $m!($($args)*, Ix1, "Ix1");
        $m!($($args)*, Ix2, "Ix2");
        $m!($($args)*, Ix3, "Ix3");
        $m!($($args)*, Ix4, "Ix4");
        $m!($($args)*, Ix5, "Ix5");
        $m!($($args)*, Ix6, "Ix6");
        $m!($($args)*, IxDyn, "IxDyn");
    };
}

/// `$m!($args.., D, "D")` for every data dimension type of `Interp2D`
macro_rules! each_d_2d {
    ($m:ident, $($args:tt)*) => {
        $m!($($args)*, Ix2, "Ix2");
        $m!($($args)*, Ix3, "Ix3");
        $m!($($args)*, Ix4, "Ix4");
        $m!($($args)*, Ix5, "Ix5");
        $m!($($args)*, Ix6, "Ix6");
        $m!($($args)*, IxDyn, "IxDyn");
    };
}

macro_rules! each_storage {
    ($m:ident, $each_d:ident, $rep:ident, $T:ty) => {
        $each_d!($m, $rep, $T, owned);
        $each_d!($m, $rep, $T, view);
        $each_d!($m, $rep, $T, shared);
    };
}

macro_rules! each_elem {
    ($m:ident, $each_d:ident, $rep:ident) => {
        each_storage!($m, $each_d, $rep, f64);
        each_storage!($m, $each_d, $rep, f32);
        each_storage!($m, $each_d, $rep, i32);
        each_storage!($m, $each_d, $rep, i64);
    };
}

macro_rules! each_dq {
    ($m:ident, $each_d:ident, $rep:ident) => {
        $each_d!($m, $rep, Ix0, "Ix0", []);
        $each_d!($m, $rep, Ix2, "Ix2", [2, 2]);
        $each_d!($m, $rep, Ix3, "Ix3", [2, 1, 2]);
        $each_d!($m, $rep, IxDyn, "IxDyn1", [3]);
        $each_d!($m, $rep, IxDyn, "IxDyn2", [2, 2]);
    };
}

fn part_a_1d(rep: &mut Report) {
    each_elem!(a1d, each_d_1d, rep);
}

fn part_a_2d(rep: &mut Report) {
    each_elem!(a2d, each_d_2d, rep);
}

fn part_b_1d(rep: &mut Report) {
    each_dq!(b1d, each_d_1d, rep);
}

fn part_b_2d(rep: &mut Report) {
    each_dq!(b2d, each_d_2d, rep);
}

fn part_c_2d(rep: &mut Report) {
    // combinations whose failure mode under a wrong cast is a caught panic come first
    c2d!(rep, f64, owned, view, Ix2, "Ix2");
    c2d!(rep, f64, owned, view, Ix3, "Ix3");
    c2d!(rep, f64, owned, view, IxDyn, "IxDyn");
    c2d!(rep, f64, view, owned, Ix3, "Ix3");
    c2d!(rep, f64, view, shared, IxDyn, "IxDyn");
    c2d!(rep, f32, owned, shared, Ix2, "Ix2");
    c2d!(rep, f64, shared, owned, Ix3, "Ix3");
}

pub fn main() {
    let mut rep = Report::default();
    part_a_1d(&mut rep);
    part_a_2d(&mut rep);
    part_b_1d(&mut rep);
    part_b_2d(&mut rep);
    part_c_2d(&mut rep);
    let mismatches = cast_mismatches();
    println!("mismatches={}", mismatches.len());
    for m in &mismatches {
        println!("MISMATCH {m}");
    }
    println!("SUMMARY casts={} failures={}", rep.lines, rep.failures);
}
