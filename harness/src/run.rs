//! Executes protocol cases against the real crate (built from /repo's working tree),
//! at the exact rational scalar `Q` and at `f64`, with static or dynamic dimension types
//! and any requested memory layout of data, axes, queries and output buffers.

use std::panic::{catch_unwind, AssertUnwindSafe};

use ndarray::{
    ArrayD, ArrayViewD, CowArray, DimAdd, Dimension, Ix0, Ix1, Ix2, Ix3, Ix4, Ix5, Ix6, IxDyn,
};
use ndarray_interp::interp1d::cubic_spline::{
    BoundaryCondition, CubicSpline, RowBoundary, SingleBoundary,
};
use ndarray_interp::interp1d::{Interp1D, Interp1DBuilder, Linear};
use ndarray_interp::interp2d::{Bilinear, Interp2D, Interp2DBuilder};
use ndarray_interp::vector_extensions::{Monotonic, VectorExtensions};
use ndarray_interp::{BuilderError, InterpolateError};

use ndarray::ShapeBuilder;

use crate::proto::*;

pub enum Outcome {
    Text(String),
    /// `InterpolateError::OutOfBounds` with its message
    Oob(String),
    Berr(&'static str),
}

impl Outcome {
    fn show<T: Scalar>(&self) -> String {
        match self {
            Outcome::Text(s) => s.clone(),
            Outcome::Oob(msg) => format!("oob {}", oob_payload::<T>(msg)),
            Outcome::Berr(k) => format!("berr {k}"),
        }
    }
}

/// the coordinate and value an `OutOfBounds` message names (`"x = {value:?} is not in range"`), in
/// protocol form: which rejected element is reported is part of the answer
fn oob_payload<T: Scalar>(msg: &str) -> String {
    let mut it = msg.splitn(2, " = ");
    let axis = it.next().unwrap_or("?").trim();
    let rest = it.next().unwrap_or("");
    let val = rest.strip_suffix(" is not in range").unwrap_or(rest).trim();
    match T::parse_debug(val) {
        Some(v) => format!("{axis} {}", v.show_canon()),
        None => format!("{axis} ?{val}"),
    }
}

fn berr(e: BuilderError) -> Outcome {
    // the entry tokens of the case are not consumed when build() fails
    Outcome::Berr(match e {
        BuilderError::NotEnoughData(_) => "NotEnoughData",
        BuilderError::Monotonic(_) => "Monotonic",
        BuilderError::ShapeError(_) => "ShapeError",
        BuilderError::ValueError(_) => "ValueError",
    })
}

fn ierr(e: InterpolateError) -> Outcome {
    match e {
        InterpolateError::OutOfBounds(msg) => Outcome::Oob(msg),
    }
}

fn fmt_vals<T: Scalar>(vals: impl Iterator<Item = T>) -> String {
    let v: Vec<String> = vals.map(|x| x.show()).collect();
    let mut out = v.len().to_string();
    for s in v {
        out.push(' ');
        out.push_str(&s);
    }
    out
}

fn ok_arr<T: Scalar>(a: ArrayViewD<'_, T>) -> Outcome {
    Outcome::Text(format!(
        "ok {} {}",
        fmt_shape(a.shape()),
        fmt_vals(a.iter().copied())
    ))
}

/// result of a `*_into` call that returned `Ok`: buffer contents + poison accounting
fn ok_buf<T: Scalar>(b: &Stored<T>) -> Outcome {
    let (unwritten, outside) = b.poison_report();
    let mut s = format!(
        "ok {} {}",
        fmt_shape(&b.shape),
        fmt_vals(b.view().iter().copied())
    );
    if unwritten > 0 {
        s.push_str(&format!(" !unwritten={unwritten}"));
    }
    if outside > 0 {
        s.push_str(&format!(" !outside={outside}"));
    }
    Outcome::Text(s)
}

/// an `Err` from a `*_into` call must still leave memory outside the view alone
fn err_buf<T: Scalar>(b: &Stored<T>, e: InterpolateError) -> Outcome {
    let (_, outside) = b.poison_report();
    if outside > 0 {
        Outcome::Text(format!("oob !outside={outside}"))
    } else {
        ierr(e)
    }
}

enum BcSpec<T> {
    Nak,
    Nat,
    Cla,
    Per,
    Ind(Vec<usize>, Vec<RowBoundary<T>>),
}

enum StratSpec<T> {
    Lin(bool),
    Spl(bool, BcSpec<T>),
}

fn parse_sb<T: Scalar>(t: &mut Toks) -> Result<SingleBoundary<T>, String> {
    Ok(match t.next()? {
        "nak" => SingleBoundary::NotAKnot,
        "nat" => SingleBoundary::Natural,
        "cla" => SingleBoundary::Clamped,
        "fd" => SingleBoundary::FirstDeriv(scalar(t)?),
        "sd" => SingleBoundary::SecondDeriv(scalar(t)?),
        s => return Err(format!("bad single boundary {s}")),
    })
}

fn parse_rb<T: Scalar>(t: &mut Toks) -> Result<RowBoundary<T>, String> {
    Ok(match t.next()? {
        "nak" => RowBoundary::NotAKnot,
        "nat" => RowBoundary::Natural,
        "cla" => RowBoundary::Clamped,
        "mix" => {
            let left = parse_sb(t)?;
            let right = parse_sb(t)?;
            RowBoundary::Mixed { left, right }
        }
        s => return Err(format!("bad row boundary {s}")),
    })
}

fn parse_strat<T: Scalar>(t: &mut Toks) -> Result<StratSpec<T>, String> {
    Ok(match t.next()? {
        "lin" => StratSpec::Lin(t.boolean()?),
        "spl" => {
            let ext = t.boolean()?;
            let bc = match t.next()? {
                "nak" => BcSpec::Nak,
                "nat" => BcSpec::Nat,
                "cla" => BcSpec::Cla,
                "per" => BcSpec::Per,
                "ind" => {
                    let shape = t.shape()?;
                    let n = t.nat()?;
                    let rbs = (0..n).map(|_| parse_rb(t)).collect::<Result<Vec<_>, _>>()?;
                    BcSpec::Ind(shape, rbs)
                }
                s => return Err(format!("bad boundary condition {s}")),
            };
            StratSpec::Spl(ext, bc)
        }
        s => return Err(format!("bad strategy {s}")),
    })
}

fn make_bc<T: Scalar, D: Dimension>(bc: BcSpec<T>) -> Result<BoundaryCondition<T, D>, String> {
    Ok(match bc {
        BcSpec::Nak => BoundaryCondition::NotAKnot,
        BcSpec::Nat => BoundaryCondition::Natural,
        BcSpec::Cla => BoundaryCondition::Clamped,
        BcSpec::Per => BoundaryCondition::Periodic,
        BcSpec::Ind(shape, rbs) => {
            let a = ArrayD::from_shape_vec(IxDyn(&shape), rbs)
                .map_err(|e| format!("boundary array: {e}"))?;
            // the same logical array in one of four memory layouts (C, F, innermost axis reversed, all axes reversed)
            let a = match mix_bits(8, 3) {
                1 => {
                    let mut f = ArrayD::from_elem(IxDyn(&shape).f(), RowBoundary::NotAKnot);
                    f.assign(&a);
                    f
                }
                k @ (2 | 3) if a.ndim() > 0 => {
                    let axes: Vec<usize> = if k == 2 { vec![a.ndim() - 1] } else { (0..a.ndim()).collect() };
                    let mut b = a.clone();
                    for &ax in &axes {
                        b.invert_axis(ndarray::Axis(ax));
                    }
                    let mut c = b.as_standard_layout().into_owned();
                    for &ax in &axes {
                        c.invert_axis(ndarray::Axis(ax));
                    }
                    c
                }
                _ => a,
            };
            let a = a
                .into_dimensionality::<D>()
                .map_err(|_| "inexpressible: boundary rank differs from static data rank".to_string())?;
            BoundaryCondition::Individual(a)
        }
    })
}

fn xspec<T: Scalar>(t: &mut Toks) -> Result<Option<Stored<T>>, String> {
    match t.next()? {
        "defx" => Ok(None),
        "x" => Ok(Some(vec1(t)?)),
        s => Err(format!("bad xspec {s}")),
    }
}

fn cow1<T: Scalar>(s: &Stored<T>) -> CowArray<'_, T, Ix1> {
    let v = s.view().into_dimensionality::<Ix1>().unwrap();
    if s.lay.is_owned() {
        CowArray::from(v.to_owned())
    } else {
        CowArray::from(v)
    }
}

/// data as a `CowArray`: an owned array (C or F order kept) or a view with the stored layout
fn cow_d<T: Scalar, D: Dimension>(s: &Stored<T>) -> Result<CowArray<'_, T, D>, String> {
    if s.lay.is_owned() {
        let a = s
            .base
            .clone()
            .into_dimensionality::<D>()
            .map_err(|_| "inexpressible: data rank".to_string())?;
        Ok(CowArray::from(a))
    } else {
        let v = s
            .view()
            .into_dimensionality::<D>()
            .map_err(|_| "inexpressible: data rank".to_string())?;
        Ok(CowArray::from(v))
    }
}

macro_rules! q_dispatch {
    ($qtag:expr, $rank:expr, $m:ident, $($args:tt)*) => {
        match ($qtag, $rank) {
            ("sta", 0) => $m!(Ix0, $($args)*),
            ("sta", 1) => $m!(Ix1, $($args)*),
            ("sta", 2) => $m!(Ix2, $($args)*),
            ("sta", 3) => $m!(Ix3, $($args)*),
            ("sta", 4) => $m!(Ix4, $($args)*),
            ("dyn", _) => $m!(IxDyn, $($args)*),
            (a, b) => return Err(format!("unsupported query dims {a} rank {b}")),
        }
    };
}

// ---------------------------------------------------------------------------------------
// Interp1D
// ---------------------------------------------------------------------------------------

macro_rules! i1_array {
    ($Dq:ty, $D:ty, $it:expr, $qs:expr) => {{
        let q = $qs.view().into_dimensionality::<$Dq>().unwrap();
        match $it.interp_array(&q) {
            Ok(a) => ok_arr(a.view().into_dyn()),
            Err(e) => ierr(e),
        }
    }};
}

macro_rules! i1_ainto {
    ($Dq:ty, $D:ty, $it:expr, $qs:expr, $buf:expr) => {{
        let q = $qs.view().into_dimensionality::<$Dq>().unwrap();
        let r = {
            let b = $buf
                .view_mut()
                .into_dimensionality::<<$Dq as DimAdd<<$D as Dimension>::Smaller>>::Output>()
                .map_err(|_| "inexpressible: buffer rank".to_string())?;
            $it.interp_array_into(&q, b)
        };
        match r {
            Ok(()) => ok_buf(&$buf),
            Err(e) => err_buf(&$buf, e),
        }
    }};
}

macro_rules! i1_entries {
    ($T:ty, $D:ty, $it:expr, $entry:expr, $t:expr) => {{
        let it = &$it;
        match $entry {
            "build" => Outcome::Text("built".into()),
            // `idx n q1 .. qn`: consecutive `get_index_left_of` calls on this one interpolator
            "idx" => {
                let qs: Vec<$T> = list($t)?;
                let is: Vec<String> = qs.iter().map(|&q| it.get_index_left_of(q).to_string()).collect();
                Outcome::Text(format!("idxs {} {}", is.len(), is.join(" ")).trim_end().to_string())
            }
            "single" => {
                let q: $T = scalar($t)?;
                match it.interp(q) {
                    Ok(a) => ok_arr(a.view().into_dyn()),
                    Err(e) => ierr(e),
                }
            }
            "into" => {
                let q: $T = scalar($t)?;
                let mut buf: Stored<$T> = buffer($t)?;
                let r = {
                    let b = buf
                        .view_mut()
                        .into_dimensionality::<<$D as Dimension>::Smaller>()
                        .map_err(|_| "inexpressible: buffer rank".to_string())?;
                    it.interp_into(q, b)
                };
                match r {
                    Ok(()) => ok_buf(&buf),
                    Err(e) => err_buf(&buf, e),
                }
            }
            "array" => {
                let qtag = $t.next()?;
                let qs: Stored<$T> = ndarr($t)?;
                q_dispatch!(qtag, qs.shape.len(), i1_array, $D, it, qs)
            }
            "ainto" => {
                let qtag = $t.next()?;
                let qs: Stored<$T> = ndarr($t)?;
                let mut buf: Stored<$T> = buffer($t)?;
                q_dispatch!(qtag, qs.shape.len(), i1_ainto, $D, it, qs, buf)
            }
            e => return Err(format!("bad entry {e}")),
        }
    }};
}

thread_local! {
    /// low bits of the record id: they select between equivalent call orders of the builders (setter
    /// order must not matter; the model has no notion of it)
    static ORDER: std::cell::Cell<u64> = const { std::cell::Cell::new(0) };
}

fn order_bit(k: u32) -> bool {
    ORDER.with(|o| (o.get() >> k) & 1 == 1)
}

/// bits of a hash of the record id: select among equivalent ways of storing / configuring the same thing
/// (boundary-array layout, setter histories); the model has no notion of them
fn mix_bits(shift: u32, mask: u64) -> u64 {
    ORDER.with(|o| (o.get().wrapping_add(1).wrapping_mul(0x9E37_79B9_7F4A_7C15) >> (32 + shift)) & mask)
}

/// the spline strategy builder with `extrapolate(ext)` and `boundary(bc)` as its *final* settings; some records first
/// go through an earlier configuration that the final setters replace (a builder's result must depend on its final
/// settings only)
fn spline_strat<T: Scalar, D: Dimension + ndarray::RemoveAxis>(
    ext: bool,
    bc: BoundaryCondition<T, D>,
) -> CubicSpline<T, D> {
    let mut s = CubicSpline::new();
    match mix_bits(0, 7) {
        1 => s = s.boundary(BoundaryCondition::Periodic).extrapolate(true),
        2 => s = s.extrapolate(true).boundary(BoundaryCondition::Periodic),
        3 => s = s.extrapolate(true).boundary(BoundaryCondition::Periodic).extrapolate(false),
        4 => s = s.boundary(BoundaryCondition::Natural).extrapolate(!ext),
        _ => {}
    }
    if order_bit(0) {
        s.boundary(bc).extrapolate(ext)
    } else {
        s.extrapolate(ext).boundary(bc)
    }
}

/// the given axis in reverse order, owned
fn decoy_axis<T: Scalar>(x: &Stored<T>) -> ndarray::Array1<T> {
    let mut v: Vec<T> = x.view().iter().cloned().collect();
    v.reverse();
    ndarray::Array1::from(v)
}

fn bilinear_strat(ext: bool) -> Bilinear {
    match mix_bits(0, 3) {
        1 => Bilinear::new().extrapolate(!ext).extrapolate(ext),
        2 => Bilinear::default().extrapolate(ext),
        // the documented default is "no extrapolation": `new()` and `Default::default()` alone must give exactly that
        3 if !ext && mix_bits(2, 1) == 0 => Bilinear::default(),
        3 if !ext => Bilinear::new(),
        _ => Bilinear::new().extrapolate(ext),
    }
}

fn linear_strat(ext: bool) -> Linear {
    match mix_bits(0, 3) {
        1 => Linear::new().extrapolate(!ext).extrapolate(ext),
        2 => Linear::default().extrapolate(ext),
        3 if !ext && mix_bits(2, 1) == 0 => Linear::default(),
        3 if !ext => Linear::new(),
        _ => Linear::new().extrapolate(ext),
    }
}

macro_rules! i1_built {
    ($T:ty, $D:ty, $builder:expr, $spec:expr, $entry:expr, $t:expr) => {{
        match $spec {
            StratSpec::Lin(ext) => match $builder.strategy(linear_strat(ext)).build() {
                Err(e) => berr(e),
                Ok(it) => i1_entries!($T, $D, it, $entry, $t),
            },
            StratSpec::Spl(ext, bc) => {
                let bc = make_bc::<$T, $D>(bc)?;
                let strat = spline_strat(ext, bc);
                match $builder.strategy(strat).build()
                {
                    Err(e) => berr(e),
                    Ok(it) => i1_entries!($T, $D, it, $entry, $t),
                }
            }
        }
    }};
}

macro_rules! i1_dim {
    ($T:ty, $D:ty, $x:expr, $data:expr, $spec:expr, $entry:expr, $t:expr) => {{
        let d = cow_d::<$T, $D>(&$data)?;
        match &$x {
            None => i1_built!($T, $D, Interp1DBuilder::new(d), $spec, $entry, $t),
            // every fourth record with an explicit axis and the Linear strategy: once `build()` has accepted the inputs,
            // the queries go to an interpolator assembled by `Interp1D::new_unchecked` from the same parts
            Some(x) if order_bit(2) && order_bit(3) && matches!($spec, StratSpec::Lin(_)) => {
                let StratSpec::Lin(ext) = $spec else { unreachable!() };
                match Interp1D::builder(d.clone()).x(cow1(x)).strategy(linear_strat(ext)).build() {
                    Err(e) => berr(e),
                    Ok(_) => {
                        let it = Interp1D::new_unchecked(cow1(x), d, Linear::new().extrapolate(ext));
                        i1_entries!($T, $D, it, $entry, $t)
                    }
                }
            }
            // an earlier `.x(..)` call with another axis (the given one reversed: invalid if the given one is valid and the other way
            // round) that the final call replaces: only the axis the builder holds when `build()` runs may count
            Some(x) if mix_bits(5, 3) == 0 => {
                i1_built!($T, $D, Interp1D::builder(d).x(decoy_axis(x)).x(cow1(x)), $spec, $entry, $t)
            }
            // the documented shorthand `Interp1D::builder` for explicit axes, `Interp1DBuilder::new` for the default axis
            Some(x) => i1_built!($T, $D, Interp1D::builder(d).x(cow1(x)), $spec, $entry, $t),
        }
    }};
}

fn i1_scalar<T: Scalar>(
    x: Option<Stored<T>>,
    data: Stored<T>,
    spec: StratSpec<T>,
    t: &mut Toks,
) -> Result<Outcome, String> {
    let q: T = scalar(t)?;
    let d = cow_d::<T, Ix1>(&data)?;
    macro_rules! go {
        ($b:expr) => {
            match spec {
                StratSpec::Lin(ext) => match $b.strategy(linear_strat(ext)).build() {
                    Err(e) => berr(e),
                    Ok(it) => match it.interp_scalar(q) {
                        Ok(v) => Outcome::Text(format!("ok 0 {}", fmt_vals([v].into_iter()))),
                        Err(e) => ierr(e),
                    },
                },
                StratSpec::Spl(ext, bc) => {
                    let bc = make_bc::<T, Ix1>(bc)?;
                    let strat = spline_strat(ext, bc);
                    match $b.strategy(strat).build() {
                        Err(e) => berr(e),
                        Ok(it) => match it.interp_scalar(q) {
                            Ok(v) => Outcome::Text(format!("ok 0 {}", fmt_vals([v].into_iter()))),
                            Err(e) => ierr(e),
                        },
                    }
                }
            }
        };
    }
    Ok(match &x {
        None => go!(Interp1DBuilder::new(d)),
        Some(x) if mix_bits(5, 3) == 0 => go!(Interp1DBuilder::new(d).x(decoy_axis(x)).x(cow1(x))),
        Some(x) => go!(Interp1DBuilder::new(d).x(cow1(x))),
    })
}

fn run_i1<T: Scalar>(t: &mut Toks) -> Result<Outcome, String> {
    let dtag = t.next()?;
    let x = xspec::<T>(t)?;
    let data = ndarr::<T>(t)?;
    let spec = parse_strat::<T>(t)?;
    let entry = t.next()?;
    if entry == "scalar" {
        if data.shape.len() != 1 {
            return Err("scalar entry needs 1-D data".into());
        }
        return i1_scalar(x, data, spec, t);
    }
    Ok(match (dtag, data.shape.len()) {
        ("dyn", _) => i1_dim!(T, IxDyn, x, data, spec, entry, t),
        ("sta", 1) => i1_dim!(T, Ix1, x, data, spec, entry, t),
        ("sta", 2) => i1_dim!(T, Ix2, x, data, spec, entry, t),
        ("sta", 3) => i1_dim!(T, Ix3, x, data, spec, entry, t),
        ("sta", 4) => i1_dim!(T, Ix4, x, data, spec, entry, t),
        ("sta", 5) => i1_dim!(T, Ix5, x, data, spec, entry, t),
        ("sta", 6) => i1_dim!(T, Ix6, x, data, spec, entry, t),
        (a, b) => return Err(format!("unsupported data dims {a} rank {b}")),
    })
}

// ---------------------------------------------------------------------------------------
// Interp2D
// ---------------------------------------------------------------------------------------

/// x and y query arrays as two views of ONE allocation: when the x array is stored in standard order, the y array is declared with its
/// last two axes swapped in memory (`perm`), the last two axes have equal length and the y contents are the x contents with those
/// axes exchanged, the y view handed to the crate is `x.swap_axes(r-1, r-2)` — same first element, same shape, other strides (the
/// square-mesh idiom `interp_array(&q, &q.t())`).  Results must not depend on that (C13); the all-C twin of a case never aliases.
fn alias_view<'a, T: Scalar>(qx: &'a Stored<T>, qy: &Stored<T>) -> Option<ndarray::ArrayViewD<'a, T>> {
    let r = qx.shape.len();
    if r < 2 || qx.lay != Lay::C || qy.lay != Lay::Perm || qx.shape != qy.shape || qx.shape[r - 1] != qx.shape[r - 2] {
        return None;
    }
    let mut v = qx.view();
    v.swap_axes(r - 1, r - 2);
    if v.iter().zip(qy.view().iter()).all(|(a, b)| a.show() == b.show()) {
        Some(v)
    } else {
        None
    }
}

macro_rules! i2_array {
    ($Dq:ty, $D:ty, $it:expr, $qx:expr, $qy:expr) => {{
        let x = $qx.view().into_dimensionality::<$Dq>().unwrap();
        let y_alias = alias_view(&$qx, &$qy);
        let y = y_alias
            .clone()
            .unwrap_or_else(|| $qy.view())
            .into_dimensionality::<$Dq>()
            .map_err(|_| "inexpressible: x/y query rank".to_string())?;
        match $it.interp_array(&x, &y) {
            Ok(a) => ok_arr(a.view().into_dyn()),
            Err(e) => ierr(e),
        }
    }};
}

macro_rules! i2_ainto {
    ($Dq:ty, $D:ty, $it:expr, $qx:expr, $qy:expr, $buf:expr) => {{
        let x = $qx.view().into_dimensionality::<$Dq>().unwrap();
        let y_alias = alias_view(&$qx, &$qy);
        let y = y_alias
            .clone()
            .unwrap_or_else(|| $qy.view())
            .into_dimensionality::<$Dq>()
            .map_err(|_| "inexpressible: x/y query rank".to_string())?;
        let r = {
            let b = $buf
                .view_mut()
                .into_dimensionality::<<$Dq as DimAdd<
                    <<$D as Dimension>::Smaller as Dimension>::Smaller,
                >>::Output>()
                .map_err(|_| "inexpressible: buffer rank".to_string())?;
            $it.interp_array_into(&x, &y, b)
        };
        match r {
            Ok(()) => ok_buf(&$buf),
            Err(e) => err_buf(&$buf, e),
        }
    }};
}

macro_rules! i2_entries {
    ($T:ty, $D:ty, $it:expr, $entry:expr, $t:expr) => {{
        let it = &$it;
        match $entry {
            "build" => Outcome::Text("built".into()),
            // `idx n x1 y1 .. xn yn`: consecutive `get_index_left_of` calls on this one interpolator
            "idx" => {
                let qs: Vec<$T> = list($t)?;
                let is: Vec<String> = qs
                    .chunks(2)
                    .map(|c| {
                        let (i, j) = it.get_index_left_of(c[0], c[1]);
                        format!("{i} {j}")
                    })
                    .collect();
                Outcome::Text(format!("idxs {} {}", is.len(), is.join(" ")).trim_end().to_string())
            }
            "single" => {
                let x: $T = scalar($t)?;
                let y: $T = scalar($t)?;
                match it.interp(x, y) {
                    Ok(a) => ok_arr(a.view().into_dyn()),
                    Err(e) => ierr(e),
                }
            }
            "into" => {
                let x: $T = scalar($t)?;
                let y: $T = scalar($t)?;
                let mut buf: Stored<$T> = buffer($t)?;
                let r = {
                    let b = buf
                        .view_mut()
                        .into_dimensionality::<<<$D as Dimension>::Smaller as Dimension>::Smaller>()
                        .map_err(|_| "inexpressible: buffer rank".to_string())?;
                    it.interp_into(x, y, b)
                };
                match r {
                    Ok(()) => ok_buf(&buf),
                    Err(e) => err_buf(&buf, e),
                }
            }
            "array" => {
                let qtag = $t.next()?;
                let qx: Stored<$T> = ndarr($t)?;
                let qy: Stored<$T> = ndarr($t)?;
                q_dispatch!(qtag, qx.shape.len(), i2_array, $D, it, qx, qy)
            }
            "ainto" => {
                let qtag = $t.next()?;
                let qx: Stored<$T> = ndarr($t)?;
                let qy: Stored<$T> = ndarr($t)?;
                let mut buf: Stored<$T> = buffer($t)?;
                q_dispatch!(qtag, qx.shape.len(), i2_ainto, $D, it, qx, qy, buf)
            }
            e => return Err(format!("bad entry {e}")),
        }
    }};
}

macro_rules! i2_built {
    ($T:ty, $D:ty, $builder:expr, $ext:expr, $entry:expr, $t:expr) => {{
        match $builder.strategy(bilinear_strat($ext)).build() {
            Err(e) => berr(e),
            Ok(it) => i2_entries!($T, $D, it, $entry, $t),
        }
    }};
}

macro_rules! i2_dim {
    ($T:ty, $D:ty, $x:expr, $y:expr, $data:expr, $ext:expr, $entry:expr, $t:expr) => {{
        let d = cow_d::<$T, $D>(&$data)?;
        match (&$x, &$y) {
            (None, None) => i2_built!($T, $D, Interp2DBuilder::new(d), $ext, $entry, $t),
            (Some(x), None) => {
                i2_built!($T, $D, Interp2DBuilder::new(d).x(cow1(x)), $ext, $entry, $t)
            }
            (None, Some(y)) => {
                i2_built!($T, $D, Interp2DBuilder::new(d).y(cow1(y)), $ext, $entry, $t)
            }
            (Some(x), Some(y)) if order_bit(2) && order_bit(3) => {
                match Interp2D::builder(d.clone()).x(cow1(x)).y(cow1(y)).strategy(bilinear_strat($ext)).build() {
                    Err(e) => berr(e),
                    Ok(_) => {
                        let it = Interp2D::new_unchecked(cow1(x), cow1(y), d, Bilinear::new().extrapolate($ext));
                        i2_entries!($T, $D, it, $entry, $t)
                    }
                }
            }
            (Some(x), Some(y)) => i2_built!(
                $T,
                $D,
                if order_bit(1) {
                    Interp2D::builder(d).y(cow1(y)).x(cow1(x))
                } else {
                    Interp2D::builder(d).x(cow1(x)).y(cow1(y))
                },
                $ext,
                $entry,
                $t
            ),
        }
    }};
}

fn i2_scalar<T: Scalar>(
    x: Option<Stored<T>>,
    y: Option<Stored<T>>,
    data: Stored<T>,
    ext: bool,
    t: &mut Toks,
) -> Result<Outcome, String> {
    let qx: T = scalar(t)?;
    let qy: T = scalar(t)?;
    let d = cow_d::<T, Ix2>(&data)?;
    macro_rules! go {
        ($b:expr) => {
            match $b.strategy(bilinear_strat(ext)).build() {
                Err(e) => berr(e),
                Ok(it) => match it.interp_scalar(qx, qy) {
                    Ok(v) => Outcome::Text(format!("ok 0 {}", fmt_vals([v].into_iter()))),
                    Err(e) => ierr(e),
                },
            }
        };
    }
    Ok(match (&x, &y) {
        (None, None) => go!(Interp2DBuilder::new(d)),
        (Some(x), None) => go!(Interp2DBuilder::new(d).x(cow1(x))),
        (None, Some(y)) => go!(Interp2DBuilder::new(d).y(cow1(y))),
        (Some(x), Some(y)) => go!(Interp2D::builder(d).x(cow1(x)).y(cow1(y))),
    })
}

fn run_i2<T: Scalar>(t: &mut Toks) -> Result<Outcome, String> {
    let dtag = t.next()?;
    let x = xspec::<T>(t)?;
    let y = xspec::<T>(t)?;
    let data = ndarr::<T>(t)?;
    let ext = t.boolean()?;
    let entry = t.next()?;
    if entry == "scalar" {
        if data.shape.len() != 2 {
            return Err("scalar entry needs 2-D data".into());
        }
        return i2_scalar(x, y, data, ext, t);
    }
    Ok(match (dtag, data.shape.len()) {
        ("dyn", _) => i2_dim!(T, IxDyn, x, y, data, ext, entry, t),
        ("sta", 2) => i2_dim!(T, Ix2, x, y, data, ext, entry, t),
        ("sta", 3) => i2_dim!(T, Ix3, x, y, data, ext, entry, t),
        ("sta", 4) => i2_dim!(T, Ix4, x, y, data, ext, entry, t),
        ("sta", 5) => i2_dim!(T, Ix5, x, y, data, ext, entry, t),
        ("sta", 6) => i2_dim!(T, Ix6, x, y, data, ext, entry, t),
        (a, b) => return Err(format!("unsupported data dims {a} rank {b}")),
    })
}

// ---------------------------------------------------------------------------------------

fn fmt_mono(m: Monotonic) -> &'static str {
    match m {
        Monotonic::Rising { strict: true } => "mono RisingS",
        Monotonic::Rising { strict: false } => "mono Rising",
        Monotonic::Falling { strict: true } => "mono FallingS",
        Monotonic::Falling { strict: false } => "mono Falling",
        Monotonic::NotMonotonic => "mono Not",
    }
}

fn run_op<T: Scalar>(t: &mut Toks) -> Result<Outcome, String> {
    match t.next()? {
        "mono" => {
            let v = vec1::<T>(t)?;
            let a = cow1(&v);
            Ok(Outcome::Text(fmt_mono(a.monotonic_prop()).into()))
        }
        "lower" => {
            let v = vec1::<T>(t)?;
            let q: T = scalar(t)?;
            let a = cow1(&v);
            Ok(Outcome::Text(format!("idx {}", a.get_lower_index(q))))
        }
        "i1" => run_i1::<T>(t),
        "i2" => run_i2::<T>(t),
        op => Err(format!("bad op {op}")),
    }
}

/// one protocol line in, one result line out
/// one protocol case at element type `T`: (was the outcome a builder error?, result text)
pub fn op<T: Scalar>(t: &mut Toks) -> Result<(bool, String), String> {
    run_op::<T>(t).map(|o| (matches!(o, Outcome::Berr(_)), o.show::<T>()))
}

/// `dispatch` maps the scalar tag of the record to `op::<T>`; each runner binary instantiates the crate at its own element
/// types only (the three binaries compile in parallel)
pub fn run_line(line: &str, dispatch: fn(&str, &mut Toks) -> Result<(bool, String), String>) -> String {
    let mut t = Toks::new(line);
    let id = match t.next() {
        Ok(i) => i.to_string(),
        Err(_) => return "? bad-op empty line".into(),
    };
    let s = match t.next() {
        Ok(s) => s,
        Err(e) => return format!("{id} bad-op {e}"),
    };
    crate::q::reset_arena();
    ORDER.with(|o| o.set(id.parse::<u64>().unwrap_or(0)));
    let r = catch_unwind(AssertUnwindSafe(|| {
        let r = dispatch(s, &mut t);
        match r {
            Ok((is_berr, text)) => {
                if is_berr || t.done() {
                    text
                } else {
                    "bad-op trailing tokens".into()
                }
            }
            Err(e) => format!("bad-op {e}"),
        }
    }));
    match r {
        Ok(s) => format!("{id} {s}"),
        Err(_) => format!("{id} panic"),
    }
}

/// stdin -> stdout loop shared by the runner binaries
pub fn serve(dispatch: fn(&str, &mut Toks) -> Result<(bool, String), String>) {
    use std::io::{BufRead, Write};
    // panics of the crate under test are outcomes, not noise
    std::panic::set_hook(Box::new(|_| {}));
    let args: Vec<String> = std::env::args().collect();
    match args.get(1).map(|s| s.as_str()) {
        Some("run") => {
            let stdin = std::io::stdin();
            let stdout = std::io::stdout();
            let mut out = std::io::BufWriter::new(stdout.lock());
            for line in stdin.lock().lines() {
                let line = line.expect("read");
                if line.trim().is_empty() {
                    continue;
                }
                writeln!(out, "{}", run_line(&line, dispatch)).expect("write");
                // flushed per record: if the crate brings the process down, everything answered so far has been delivered
                out.flush().expect("flush");
            }
        }
        _ => {
            eprintln!("usage: vharness[_f|_i] run < cases > results   (scenario binaries: vharness_casts, vharness_hist <seed> <n>, vharness_custom <seed> <n>)");
            std::process::exit(2);
        }
    }
}
