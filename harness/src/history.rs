//! C17 (to be filled in)
pub fn main(_seed: u64, _n: usize) {
    println!("SUMMARY histories=0 failures=0");
}
