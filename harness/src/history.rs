//! C17: an interpolator is immutable — answers do not depend on history or concurrency.
//!
//! For every history a random interpolator configuration and a random list of operations
//! (all entry points, good and bad queries, rejected buffers) is generated. Every operation is
//! first answered by a FRESH interpolator (no history at all); then one interpolator object
//! replays the list in order (A), permuted (B) and split over concurrently running threads (C).
//! Every answer must be bit-identical to the reference answer.

use std::panic::{catch_unwind, AssertUnwindSafe};
use std::sync::Barrier;

use ndarray::{
    ArcArray, ArcArray1, Array, Array1, ArrayBase, ArrayD, Data, Dimension, Ix1, Ix2, Ix3, IxDyn,
    OwnedArcRepr, OwnedRepr, ViewRepr,
};
use ndarray_interp::interp1d::cubic_spline::{
    BoundaryCondition, CubicSpline, CubicSplineStrategy, RowBoundary, SingleBoundary,
};
use ndarray_interp::interp1d::{Interp1D, Interp1DBuilder, Interp1DStrategy, Linear};
use ndarray_interp::interp2d::{Bilinear, Interp2D, Interp2DBuilder};
use ndarray_interp::InterpolateError;

// ---------------------------------------------------------------------------------------------
// PRNG

/// splitmix64: the single source of randomness of this check
struct Rng(u64);

impl Rng {
    fn next(&mut self) -> u64 {
        self.0 = self.0.wrapping_add(0x9E37_79B9_7F4A_7C15);
        let mut z = self.0;
        z = (z ^ (z >> 30)).wrapping_mul(0xBF58_476D_1CE4_E5B9);
        z = (z ^ (z >> 27)).wrapping_mul(0x94D0_49BB_1331_11EB);
        z ^ (z >> 31)
    }
    fn below(&mut self, n: usize) -> usize {
        (self.next() % n as u64) as usize
    }
    /// inclusive range
    fn range(&mut self, lo: usize, hi: usize) -> usize {
        lo + self.below(hi - lo + 1)
    }
    fn unit(&mut self) -> f64 {
        (self.next() >> 11) as f64 / (1u64 << 53) as f64
    }
    fn uniform(&mut self, lo: f64, hi: f64) -> f64 {
        lo + (hi - lo) * self.unit()
    }
    fn chance(&mut self, p: f64) -> bool {
        self.unit() < p
    }
}

// ---------------------------------------------------------------------------------------------
// compile-time assertions: interpolators over thread-safe storage are Send + Sync

fn assert_send_sync<T: Send + Sync>() {}

macro_rules! assert_interpolators_send_sync {
    ($($repr:ty),* $(,)?) => {$(
        assert_send_sync::<Interp1D<$repr, $repr, Ix1, Linear>>();
        assert_send_sync::<Interp1D<$repr, $repr, Ix2, Linear>>();
        assert_send_sync::<Interp1D<$repr, $repr, IxDyn, Linear>>();
        assert_send_sync::<Interp1D<$repr, $repr, Ix1, CubicSplineStrategy<$repr, Ix1>>>();
        assert_send_sync::<Interp1D<$repr, $repr, Ix2, CubicSplineStrategy<$repr, Ix2>>>();
        assert_send_sync::<Interp1D<$repr, $repr, IxDyn, CubicSplineStrategy<$repr, IxDyn>>>();
        assert_send_sync::<Interp2D<$repr, $repr, $repr, Ix2, Bilinear>>();
        assert_send_sync::<Interp2D<$repr, $repr, $repr, Ix3, Bilinear>>();
        assert_send_sync::<Interp2D<$repr, $repr, $repr, IxDyn, Bilinear>>();
    )*};
}

/// these only have to compile
fn static_assertions() {
    assert_interpolators_send_sync!(OwnedRepr<f64>, ViewRepr<&'static f64>, OwnedArcRepr<f64>);
}

// ---------------------------------------------------------------------------------------------
// configuration of one interpolator

#[derive(Clone, Copy, PartialEq, Eq)]
enum Boundary {
    NotAKnot,
    Natural,
    Clamped,
    Periodic,
    Individual,
}

#[derive(Clone, Copy, PartialEq, Eq)]
enum Kind {
    Linear,
    Spline(Boundary),
    Bilinear,
}

/// Everything needed to build the interpolator again and again.
/// The arrays are shared masters: `shared` interpolators hold clones of them (same memory,
/// reference counted across all fresh reference interpolators and threads), `owned` ones copy.
struct Config {
    kind: Kind,
    extrapolate: bool,
    shared: bool,
    x: ArcArray1<f64>,
    /// empty for 1-D interpolators
    y: ArcArray1<f64>,
    data: ArcArray<f64, IxDyn>,
    /// per-lane boundaries (shape `[1, trailing..]`), only used by `Boundary::Individual`
    bounds: ArrayD<RowBoundary<f64>>,
}

impl Config {
    fn interp_axes(&self) -> usize {
        if self.kind == Kind::Bilinear {
            2
        } else {
            1
        }
    }
    fn trailing(&self) -> &[usize] {
        &self.data.shape()[self.interp_axes()..]
    }
    fn has_scalar(&self) -> bool {
        self.data.ndim() == self.interp_axes()
    }
    fn describe(&self) -> String {
        let name = match self.kind {
            Kind::Linear => "linear",
            Kind::Spline(Boundary::NotAKnot) => "spline-notaknot",
            Kind::Spline(Boundary::Natural) => "spline-natural",
            Kind::Spline(Boundary::Clamped) => "spline-clamped",
            Kind::Spline(Boundary::Periodic) => "spline-periodic",
            Kind::Spline(Boundary::Individual) => "spline-individual",
            Kind::Bilinear => "bilinear",
        };
        let extrap = if self.extrapolate { "extrap" } else { "noextrap" };
        format!("{name}/{extrap}/{}", fmt_shape(self.data.shape()))
    }
}

fn gen_axis(rng: &mut Rng, len: usize) -> ArcArray1<f64> {
    let mut v = Vec::with_capacity(len);
    if rng.chance(0.25) {
        // interval lengths that differ by many orders of magnitude (a first interval of 1e-30 .. 1e-12 next to the origin, later ones of
        // ordinary or huge length): anything that carries a quantity measured in one interval over to another (a remembered interval
        // used as the starting point of the next lookup, say) overflows or loses all precision here
        let mut cur = 0.0f64;
        for i in 0..len {
            v.push(cur);
            let step = match (i, rng.below(4)) {
                (0, 0) => 1e-30,
                (0, 1) => 1e-20,
                (0, _) => 1e-12,
                (_, 0) => 1e15,
                _ => rng.uniform(0.1, 2.0),
            };
            // after a few steps of 1e15 an ordinary step is below half an ulp: the axis must stay strictly increasing as f64
            let next = cur + step;
            cur = if next > cur { next } else { cur * (1.0 + 4.0 * f64::EPSILON) };
        }
        return Array1::from(v).into_shared();
    }
    let mut cur = rng.uniform(-5.0, 5.0);
    for _ in 0..len {
        v.push(cur);
        cur += rng.uniform(0.1, 2.0);
    }
    Array1::from(v).into_shared()
}

fn gen_single_boundary(rng: &mut Rng) -> SingleBoundary<f64> {
    match rng.below(5) {
        0 => SingleBoundary::NotAKnot,
        1 => SingleBoundary::Natural,
        2 => SingleBoundary::Clamped,
        3 => SingleBoundary::FirstDeriv(rng.uniform(-2.0, 2.0)),
        _ => SingleBoundary::SecondDeriv(rng.uniform(-2.0, 2.0)),
    }
}

fn gen_row_boundary(rng: &mut Rng) -> RowBoundary<f64> {
    match rng.below(6) {
        0 => RowBoundary::NotAKnot,
        1 => RowBoundary::Natural,
        2 => RowBoundary::Clamped,
        _ => RowBoundary::Mixed {
            left: gen_single_boundary(rng),
            right: gen_single_boundary(rng),
        },
    }
}

fn gen_config(rng: &mut Rng) -> Config {
    let kind = match rng.below(8) {
        0 | 1 => Kind::Linear,
        2 | 3 => Kind::Bilinear,
        _ => Kind::Spline(match rng.below(5) {
            0 => Boundary::NotAKnot,
            1 => Boundary::Natural,
            2 => Boundary::Clamped,
            3 => Boundary::Periodic,
            _ => Boundary::Individual,
        }),
    };
    let extrapolate = rng.chance(0.5);
    let shared = rng.chance(0.5);
    let x_len = rng.range(3, 8);
    let x = gen_axis(rng, x_len);
    let y = if kind == Kind::Bilinear {
        let y_len = rng.range(3, 8);
        gen_axis(rng, y_len)
    } else {
        Array1::from(Vec::new()).into_shared()
    };
    let mut shape = vec![x.len()];
    if kind == Kind::Bilinear {
        shape.push(y.len());
    }
    let lead = shape.len();
    if rng.chance(0.15) {
        // wide data: 64 and more values per point (anything that switches on above a size threshold — a memo of the latest
        // single-point result, a parallel or blocked path — is only reached here)
        shape.push(rng.range(64, 96));
    } else {
        for _ in 0..rng.below(3) {
            shape.push(rng.range(1, 3));
        }
    }
    let total: usize = shape.iter().product();
    let values: Vec<f64> = (0..total).map(|_| rng.uniform(-10.0, 10.0)).collect();
    let mut data = ArrayD::from_shape_vec(IxDyn(&shape), values).expect("data shape");
    if kind == Kind::Spline(Boundary::Periodic) {
        let first = data.index_axis(ndarray::Axis(0), 0).to_owned();
        data.index_axis_mut(ndarray::Axis(0), shape[0] - 1).assign(&first);
    }
    let mut bshape = vec![1];
    bshape.extend_from_slice(&shape[lead..]);
    let lanes: usize = bshape.iter().product();
    let bounds = if kind == Kind::Spline(Boundary::Individual) {
        let rows: Vec<RowBoundary<f64>> = (0..lanes).map(|_| gen_row_boundary(rng)).collect();
        ArrayD::from_shape_vec(IxDyn(&bshape), rows).expect("bounds shape")
    } else {
        ArrayD::from_elem(IxDyn(&bshape), RowBoundary::NotAKnot)
    };
    Config {
        kind,
        extrapolate,
        shared,
        x,
        y,
        data: data.into_shared(),
        bounds,
    }
}

// ---------------------------------------------------------------------------------------------
// operations and answers

#[derive(Clone, Copy, PartialEq, Eq, Debug)]
enum Entry {
    Scalar,
    Interp,
    InterpInto,
    Array,
    ArrayIx1,
    ArrayInto,
    ArrayIntoIx1,
}

impl Entry {
    fn name(self) -> &'static str {
        match self {
            Entry::Scalar => "interp_scalar",
            Entry::Interp => "interp",
            Entry::InterpInto => "interp_into",
            Entry::Array => "interp_array",
            Entry::ArrayIx1 => "interp_array_ix1",
            Entry::ArrayInto => "interp_array_into",
            Entry::ArrayIntoIx1 => "interp_array_into_ix1",
        }
    }
    fn takes_buffer(self) -> bool {
        matches!(
            self,
            Entry::InterpInto | Entry::ArrayInto | Entry::ArrayIntoIx1
        )
    }
    fn is_single(self) -> bool {
        matches!(self, Entry::Scalar | Entry::Interp | Entry::InterpInto)
    }
}

struct Op {
    entry: Entry,
    /// shape of the query array (empty for single queries and rank-0 query arrays)
    qshape: Vec<usize>,
    qx: Vec<f64>,
    /// same length as `qx` for 2-D interpolators, empty otherwise
    qy: Vec<f64>,
    /// shape of the buffer handed to `*_into`
    buf: Vec<usize>,
    wrong_buf: bool,
}

impl Op {
    fn describe(&self, idx: usize) -> String {
        let hex = |v: &[f64]| {
            v.iter()
                .map(|q| format!("{:016x}", q.to_bits()))
                .collect::<Vec<_>>()
                .join(",")
        };
        let mut s = format!("{idx}:{}[", self.entry.name());
        if !self.entry.is_single() {
            s.push_str(&format!("qshape={};", fmt_shape(&self.qshape)));
        }
        s.push_str(&format!("x={}", hex(&self.qx)));
        if !self.qy.is_empty() || self.qx.is_empty() {
            s.push_str(&format!(";y={}", hex(&self.qy)));
        }
        if self.entry.takes_buffer() {
            let tag = if self.wrong_buf { "wrongbuf" } else { "buf" };
            s.push_str(&format!(";{tag}={}", fmt_shape(&self.buf)));
        }
        s.push(']');
        s
    }
}

#[derive(Clone, PartialEq, Eq)]
enum Answer {
    /// shape and bit patterns of all result values in logical order
    Ok { shape: Vec<usize>, bits: Vec<u64> },
    /// `OutOfBounds` with its message; for `*_into` calls also the state the buffer was left in
    Err { msg: String, buf: Vec<u64> },
    /// the call panicked (message of the panic)
    Panic(String),
}

impl Answer {
    fn show(&self) -> String {
        let hex = |b: &[u64]| {
            b.iter()
                .map(|v| format!("{v:016x}"))
                .collect::<Vec<_>>()
                .join(",")
        };
        match self {
            Answer::Ok { shape, bits } => format!("ok[{}:{}]", fmt_shape(shape), hex(bits)),
            Answer::Err { msg, buf } => {
                format!("err[{}:{}]", msg.replace(char::is_whitespace, "_"), hex(buf))
            }
            Answer::Panic(msg) => format!("panic[{}]", msg.replace(char::is_whitespace, "_")),
        }
    }
}

fn fmt_shape(shape: &[usize]) -> String {
    if shape.is_empty() {
        "scalar".into()
    } else {
        shape
            .iter()
            .map(|n| n.to_string())
            .collect::<Vec<_>>()
            .join("x")
    }
}

const POISON: u64 = 0x7ff8_dead_beef_0001;

thread_local! {
    /// what a caller's buffer holds before a `*_into` call of the replayed history: the NaN poison (as in every reference answer), or a
    /// distinctive finite value — tiny or huge — standing for contents left over from earlier use of the same buffer.  An answer must
    /// not depend on it; elements still holding the prefill after the call are reported as poison, whatever it was.
    static PREFILL: std::cell::Cell<u64> = const { std::cell::Cell::new(POISON) };
}

const LEFTOVERS: [u64; 3] = [POISON, 0x3001_2345_6789_abcd, 0x7e37_e43c_8800_759c];

fn set_prefill(k: usize) {
    PREFILL.with(|p| p.set(LEFTOVERS[k % LEFTOVERS.len()]));
}

fn poisoned(shape: &[usize]) -> ArrayD<f64> {
    ArrayD::from_elem(IxDyn(shape), f64::from_bits(PREFILL.with(|p| p.get())))
}

fn bits_of<D: Dimension>(a: &Array<f64, D>) -> Vec<u64> {
    let pre = PREFILL.with(|p| p.get());
    a.iter().map(|v| if v.to_bits() == pre { POISON } else { v.to_bits() }).collect()
}

fn oob(e: InterpolateError, buf: Vec<u64>) -> Answer {
    match e {
        InterpolateError::OutOfBounds(msg) => Answer::Err { msg, buf },
    }
}

fn from_value(r: Result<f64, InterpolateError>) -> Answer {
    match r {
        Ok(v) => Answer::Ok {
            shape: Vec::new(),
            bits: vec![v.to_bits()],
        },
        Err(e) => oob(e, Vec::new()),
    }
}

fn from_array<D: Dimension>(r: Result<Array<f64, D>, InterpolateError>) -> Answer {
    match r {
        Ok(a) => Answer::Ok {
            shape: a.shape().to_vec(),
            bits: bits_of(&a),
        },
        Err(e) => oob(e, Vec::new()),
    }
}

fn from_buffer(r: Result<(), InterpolateError>, buf: &ArrayD<f64>) -> Answer {
    match r {
        Ok(()) => Answer::Ok {
            shape: buf.shape().to_vec(),
            bits: bits_of(buf),
        },
        Err(e) => oob(e, bits_of(buf)),
    }
}

fn capture(f: impl FnOnce() -> Answer) -> Answer {
    match catch_unwind(AssertUnwindSafe(f)) {
        Ok(a) => a,
        Err(payload) => {
            let msg = if let Some(s) = payload.downcast_ref::<String>() {
                s.clone()
            } else if let Some(s) = payload.downcast_ref::<&str>() {
                (*s).to_string()
            } else {
                "<non-string panic payload>".to_string()
            };
            Answer::Panic(msg)
        }
    }
}

fn dyn_query(shape: &[usize], values: &[f64]) -> ArrayD<f64> {
    ArrayD::from_shape_vec(IxDyn(shape), values.to_vec()).expect("query shape")
}

// ---------------------------------------------------------------------------------------------
// storage flavours and subjects under test

trait Store: Data<Elem = f64> + Send + Sync + Sized + 'static {
    fn take<D: Dimension>(master: &ArcArray<f64, D>) -> ArrayBase<Self, D>;
}

impl Store for OwnedRepr<f64> {
    fn take<D: Dimension>(master: &ArcArray<f64, D>) -> ArrayBase<Self, D> {
        master.to_owned()
    }
}

impl Store for OwnedArcRepr<f64> {
    fn take<D: Dimension>(master: &ArcArray<f64, D>) -> ArrayBase<Self, D> {
        master.clone()
    }
}

/// An interpolator (plus its statically typed twin for `interp_scalar`) that can answer ops
/// through `&self` from any thread.
trait Subject: Sync {
    fn run(&self, op: &Op) -> Answer;
}

struct Subject1<Sd, S, S1>
where
    Sd: Store,
    S: Interp1DStrategy<Sd, Sd, IxDyn>,
    S1: Interp1DStrategy<Sd, Sd, Ix1>,
{
    dynamic: Interp1D<Sd, Sd, IxDyn, S>,
    scalar: Option<Interp1D<Sd, Sd, Ix1, S1>>,
}

impl<Sd, S, S1> Subject for Subject1<Sd, S, S1>
where
    Sd: Store,
    S: Interp1DStrategy<Sd, Sd, IxDyn> + Sync,
    S1: Interp1DStrategy<Sd, Sd, Ix1> + Sync,
{
    fn run(&self, op: &Op) -> Answer {
        let dy = &self.dynamic;
        capture(|| match op.entry {
            Entry::Scalar => {
                let sc = self.scalar.as_ref().expect("harness: no scalar twin");
                from_value(sc.interp_scalar(op.qx[0]))
            }
            Entry::Interp => from_array(dy.interp(op.qx[0])),
            Entry::InterpInto => {
                let mut buf = poisoned(&op.buf);
                let r = dy.interp_into(op.qx[0], buf.view_mut());
                from_buffer(r, &buf)
            }
            Entry::Array => from_array(dy.interp_array(&dyn_query(&op.qshape, &op.qx))),
            Entry::ArrayIx1 => from_array(dy.interp_array(&Array1::from(op.qx.clone()))),
            Entry::ArrayInto => {
                let mut buf = poisoned(&op.buf);
                let r = dy.interp_array_into(&dyn_query(&op.qshape, &op.qx), buf.view_mut());
                from_buffer(r, &buf)
            }
            Entry::ArrayIntoIx1 => {
                let mut buf = poisoned(&op.buf);
                let r = dy.interp_array_into(&Array1::from(op.qx.clone()), buf.view_mut());
                from_buffer(r, &buf)
            }
        })
    }
}

struct Subject2<Sd: Store> {
    dynamic: Interp2D<Sd, Sd, Sd, IxDyn, Bilinear>,
    scalar: Option<Interp2D<Sd, Sd, Sd, Ix2, Bilinear>>,
}

impl<Sd: Store> Subject for Subject2<Sd> {
    fn run(&self, op: &Op) -> Answer {
        let dy = &self.dynamic;
        capture(|| match op.entry {
            Entry::Scalar => {
                let sc = self.scalar.as_ref().expect("harness: no scalar twin");
                from_value(sc.interp_scalar(op.qx[0], op.qy[0]))
            }
            Entry::Interp => from_array(dy.interp(op.qx[0], op.qy[0])),
            Entry::InterpInto => {
                let mut buf = poisoned(&op.buf);
                let r = dy.interp_into(op.qx[0], op.qy[0], buf.view_mut());
                from_buffer(r, &buf)
            }
            Entry::Array => from_array(dy.interp_array(
                &dyn_query(&op.qshape, &op.qx),
                &dyn_query(&op.qshape, &op.qy),
            )),
            Entry::ArrayIx1 => from_array(dy.interp_array(
                &Array1::from(op.qx.clone()),
                &Array1::from(op.qy.clone()),
            )),
            Entry::ArrayInto => {
                let mut buf = poisoned(&op.buf);
                let r = dy.interp_array_into(
                    &dyn_query(&op.qshape, &op.qx),
                    &dyn_query(&op.qshape, &op.qy),
                    buf.view_mut(),
                );
                from_buffer(r, &buf)
            }
            Entry::ArrayIntoIx1 => {
                let mut buf = poisoned(&op.buf);
                let r = dy.interp_array_into(
                    &Array1::from(op.qx.clone()),
                    &Array1::from(op.qy.clone()),
                    buf.view_mut(),
                );
                from_buffer(r, &buf)
            }
        })
    }
}

fn spline_builder<D: Dimension + ndarray::RemoveAxis>(
    cfg: &Config,
    boundary: Boundary,
) -> Result<CubicSpline<f64, D>, String> {
    let bc = match boundary {
        Boundary::NotAKnot => BoundaryCondition::NotAKnot,
        Boundary::Natural => BoundaryCondition::Natural,
        Boundary::Clamped => BoundaryCondition::Clamped,
        Boundary::Periodic => BoundaryCondition::Periodic,
        Boundary::Individual => BoundaryCondition::Individual(
            cfg.bounds
                .clone()
                .into_dimensionality::<D>()
                .map_err(|e| format!("bounds dimensionality: {e}"))?,
        ),
    };
    Ok(CubicSpline::new().extrapolate(cfg.extrapolate).boundary(bc))
}

fn build_with<Sd: Store>(cfg: &Config) -> Result<Box<dyn Subject>, String> {
    let err = |e: ndarray_interp::BuilderError| format!("build failed: {e:?}");
    let dim_err = |e: ndarray::ShapeError| format!("static twin: {e}");
    match cfg.kind {
        Kind::Linear => {
            let strat = || Linear::new().extrapolate(cfg.extrapolate);
            let dynamic = Interp1DBuilder::new(Sd::take(&cfg.data))
                .x(Sd::take(&cfg.x))
                .strategy(strat())
                .build()
                .map_err(err)?;
            let scalar = if cfg.has_scalar() {
                let flat = cfg.data.clone().into_dimensionality::<Ix1>().map_err(dim_err)?;
                Some(
                    Interp1DBuilder::new(Sd::take(&flat))
                        .x(Sd::take(&cfg.x))
                        .strategy(strat())
                        .build()
                        .map_err(err)?,
                )
            } else {
                None
            };
            Ok(Box::new(Subject1 { dynamic, scalar }))
        }
        Kind::Spline(boundary) => {
            let dynamic = Interp1DBuilder::new(Sd::take(&cfg.data))
                .x(Sd::take(&cfg.x))
                .strategy(spline_builder::<IxDyn>(cfg, boundary)?)
                .build()
                .map_err(err)?;
            let scalar = if cfg.has_scalar() {
                let flat = cfg.data.clone().into_dimensionality::<Ix1>().map_err(dim_err)?;
                Some(
                    Interp1DBuilder::new(Sd::take(&flat))
                        .x(Sd::take(&cfg.x))
                        .strategy(spline_builder::<Ix1>(cfg, boundary)?)
                        .build()
                        .map_err(err)?,
                )
            } else {
                None
            };
            Ok(Box::new(Subject1 { dynamic, scalar }))
        }
        Kind::Bilinear => {
            let strat = || Bilinear::new().extrapolate(cfg.extrapolate);
            let dynamic = Interp2DBuilder::new(Sd::take(&cfg.data))
                .x(Sd::take(&cfg.x))
                .y(Sd::take(&cfg.y))
                .strategy(strat())
                .build()
                .map_err(err)?;
            let scalar = if cfg.has_scalar() {
                let flat = cfg.data.clone().into_dimensionality::<Ix2>().map_err(dim_err)?;
                Some(
                    Interp2DBuilder::new(Sd::take(&flat))
                        .x(Sd::take(&cfg.x))
                        .y(Sd::take(&cfg.y))
                        .strategy(strat())
                        .build()
                        .map_err(err)?,
                )
            } else {
                None
            };
            Ok(Box::new(Subject2 { dynamic, scalar }))
        }
    }
}

fn build(cfg: &Config) -> Result<Box<dyn Subject>, String> {
    if cfg.shared {
        build_with::<OwnedArcRepr<f64>>(cfg)
    } else {
        build_with::<OwnedRepr<f64>>(cfg)
    }
}

// ---------------------------------------------------------------------------------------------
// operation generator

fn gen_in_range(rng: &mut Rng, axis: &ArcArray1<f64>) -> f64 {
    let (lo, hi) = (axis[0], axis[axis.len() - 1]);
    match rng.below(10) {
        0 => axis[rng.below(axis.len())],
        1 => {
            if rng.chance(0.5) {
                lo
            } else {
                hi
            }
        }
        2 | 3 => {
            // the middle of an interval chosen by its number, not by its length (so narrow intervals are visited too)
            let i = rng.below(axis.len() - 1);
            (axis[i] + (axis[i + 1] - axis[i]) * 0.5).clamp(lo, hi)
        }
        _ => rng.uniform(lo, hi).clamp(lo, hi),
    }
}

fn gen_any(rng: &mut Rng, axis: &ArcArray1<f64>) -> f64 {
    let (lo, hi) = (axis[0], axis[axis.len() - 1]);
    match rng.below(100) {
        0..=64 => gen_in_range(rng, axis),
        65..=74 => lo - rng.uniform(0.01, 3.0),
        75..=84 => hi + rng.uniform(0.01, 3.0),
        85..=87 => hi + 1e-9,
        88..=89 => lo - 1e-9,
        90..=95 => f64::NAN,
        96..=97 => f64::INFINITY,
        _ => f64::NEG_INFINITY,
    }
}

fn wrong_shape(rng: &mut Rng, good: &[usize]) -> Vec<usize> {
    loop {
        let mut s = good.to_vec();
        let pick = rng.below(4);
        if s.is_empty() || pick == 0 {
            s.push(rng.range(1, 2));
        } else {
            let i = rng.below(s.len());
            match pick {
                1 => s[i] += 1,
                2 => s[i] = if s[i] > 0 { s[i] - 1 } else { 2 },
                _ => {
                    s.remove(i);
                }
            }
        }
        if s != good {
            return s;
        }
    }
}

fn gen_op(rng: &mut Rng, cfg: &Config) -> Op {
    let two_d = cfg.kind == Kind::Bilinear;
    let entry = loop {
        let e = match rng.below(16) {
            0 | 1 => Entry::Scalar,
            2 | 3 => Entry::Interp,
            4..=6 => Entry::InterpInto,
            7 | 8 => Entry::Array,
            9 | 10 => Entry::ArrayIx1,
            11..=13 => Entry::ArrayInto,
            _ => Entry::ArrayIntoIx1,
        };
        if e != Entry::Scalar || cfg.has_scalar() {
            break e;
        }
    };
    let qshape: Vec<usize> = match entry {
        Entry::Scalar | Entry::Interp | Entry::InterpInto => Vec::new(),
        Entry::ArrayIx1 | Entry::ArrayIntoIx1 => vec![rng.range(0, 5)],
        Entry::Array | Entry::ArrayInto => match rng.below(3) {
            0 => Vec::new(),
            1 => vec![rng.range(0, 5)],
            _ => {
                let lowest = usize::from(!rng.chance(0.1));
                vec![rng.range(lowest, 3), rng.range(1, 3)]
            }
        },
    };
    let count: usize = qshape.iter().product();
    let tame = rng.chance(0.6);
    let mut qx = Vec::with_capacity(count);
    let mut qy = Vec::new();
    for _ in 0..count {
        qx.push(if tame {
            gen_in_range(rng, &cfg.x)
        } else {
            gen_any(rng, &cfg.x)
        });
        if two_d {
            // a bad x with a good y and vice versa must both occur
            qy.push(if tame || rng.chance(0.5) {
                gen_in_range(rng, &cfg.y)
            } else {
                gen_any(rng, &cfg.y)
            });
        }
    }
    let mut good = qshape.clone();
    good.extend_from_slice(cfg.trailing());
    let wrong_buf = entry.takes_buffer() && rng.chance(0.2);
    let buf = if wrong_buf {
        wrong_shape(rng, &good)
    } else {
        good
    };
    Op {
        entry,
        qshape,
        qx,
        qy,
        buf,
        wrong_buf,
    }
}

fn repeat_op(rng: &mut Rng, cfg: &Config, prev: &Op) -> Op {
    let mut op = Op {
        entry: prev.entry,
        qshape: prev.qshape.clone(),
        qx: prev.qx.clone(),
        qy: prev.qy.clone(),
        buf: prev.buf.clone(),
        wrong_buf: prev.wrong_buf,
    };
    if matches!(prev.entry, Entry::Interp | Entry::InterpInto) {
        op.entry = if rng.chance(0.5) {
            Entry::Interp
        } else {
            Entry::InterpInto
        };
        op.buf = cfg.trailing().to_vec();
        op.wrong_buf = false;
    }
    op
}

/// What the crate's documentation promises for the reference answer, independent of history:
/// `None` when the answer is as promised, otherwise a description of the broken promise.
fn sanity(cfg: &Config, op: &Op, answer: &Answer) -> Option<&'static str> {
    let inside = |axis: &ArcArray1<f64>, q: f64| axis[0] <= q && q <= axis[axis.len() - 1];
    let all_inside = op.qx.iter().all(|&q| inside(&cfg.x, q))
        && op.qy.iter().all(|&q| inside(&cfg.y, q));
    let is_ok = matches!(answer, Answer::Ok { .. });
    if op.wrong_buf && is_ok {
        return Some("a wrongly shaped buffer was accepted");
    }
    if !op.wrong_buf && all_inside && !is_ok {
        return Some("in-range queries with a correct buffer must succeed");
    }
    let array_with_wrong_buf = op.wrong_buf && !op.entry.is_single();
    if !cfg.extrapolate
        && !all_inside
        && !array_with_wrong_buf
        && !matches!(answer, Answer::Err { .. })
    {
        return Some("out-of-range query without extrapolation must be OutOfBounds");
    }
    None
}

// ---------------------------------------------------------------------------------------------
// replays

struct Mismatch {
    replay: char,
    op: usize,
    got: Answer,
}

fn shuffle(rng: &mut Rng, v: &mut [usize]) {
    for i in (1..v.len()).rev() {
        v.swap(i, rng.below(i + 1));
    }
}

/// runs `plan[j]` three times on thread `j`, all threads released together; returns the number
/// of executed ops and every answer that differed from the reference
fn replay_concurrent(
    subject: &dyn Subject,
    ops: &[Op],
    expected: &[Answer],
    plan: &[Vec<usize>],
) -> (usize, Vec<Mismatch>) {
    let barrier = Barrier::new(plan.len());
    let barrier = &barrier;
    let mut executed = 0;
    let mut bad = Vec::new();
    std::thread::scope(|scope| {
        let handles: Vec<_> = plan
            .iter()
            .map(|seq| {
                scope.spawn(move || {
                    let mut count = 0;
                    let mut bad = Vec::new();
                    barrier.wait();
                    for _ in 0..3 {
                        for &i in seq {
                            set_prefill(i + count);
                            let got = subject.run(&ops[i]);
                            count += 1;
                            if got != expected[i] {
                                bad.push(Mismatch {
                                    replay: 'C',
                                    op: i,
                                    got,
                                });
                            }
                        }
                    }
                    (count, bad)
                })
            })
            .collect();
        for (j, h) in handles.into_iter().enumerate() {
            match h.join() {
                Ok((count, mut b)) => {
                    executed += count;
                    bad.append(&mut b);
                }
                Err(_) => bad.push(Mismatch {
                    replay: 'C',
                    op: plan[j].first().copied().unwrap_or(0),
                    got: Answer::Panic("harness: replay thread died".into()),
                }),
            }
        }
    });
    (executed, bad)
}

#[derive(Default)]
struct Stats {
    executed: usize,
    failures: usize,
    ok: usize,
    err: usize,
    panic: usize,
    scalar_ops: usize,
    rejected_buffers: usize,
}

fn run_history(idx: usize, rng: &mut Rng, stats: &mut Stats) {
    let cfg = gen_config(rng);
    let n_ops = rng.range(20, 200);
    let mut ops: Vec<Op> = Vec::with_capacity(n_ops);
    for _ in 0..n_ops {
        // every fifth operation repeats the query of the one before it (same point(s), failing or not), single-point ones through
        // `interp` or `interp_into` at random: an answer remembered from — or a key left behind by — the previous call shows here
        let op = match ops.last() {
            Some(prev) if rng.chance(0.2) => repeat_op(rng, &cfg, prev),
            _ => gen_op(rng, &cfg),
        };
        ops.push(op);
    }
    let threads = [2usize, 3, 4, 8, 16][rng.below(5)];
    let storage = if cfg.shared { "shared" } else { "owned" };
    let mut failures = 0usize;
    let fail = |failures: &mut usize, replay: char, op: usize, expected: &str, got: &str| {
        *failures += 1;
        println!(
            "FAIL history={idx} replay={replay} op={} expected={expected} got={got}",
            ops[op].describe(op)
        );
    };

    // reference answers: one fresh interpolator per op
    let mut expected = Vec::with_capacity(n_ops);
    for (i, op) in ops.iter().enumerate() {
        set_prefill(0);
        let answer = match build(&cfg) {
            Ok(fresh) => fresh.run(op),
            Err(e) => Answer::Panic(format!("harness: {e}")),
        };
        if let Some(promise) = sanity(&cfg, op, &answer) {
            fail(
                &mut failures,
                'R',
                i,
                &promise.replace(' ', "_"),
                &answer.show(),
            );
        }
        match answer {
            Answer::Ok { .. } => stats.ok += 1,
            Answer::Err { .. } => stats.err += 1,
            Answer::Panic(_) => stats.panic += 1,
        }
        stats.scalar_ops += usize::from(op.entry == Entry::Scalar);
        stats.rejected_buffers += usize::from(op.wrong_buf);
        expected.push(answer);
    }

    match build(&cfg) {
        Err(e) => fail(&mut failures, 'A', 0, "a_built_interpolator", &e.replace(' ', "_")),
        Ok(subject) => {
            let subject: &dyn Subject = subject.as_ref();
            let mut bad = Vec::new();
            // A: original order
            for (i, op) in ops.iter().enumerate() {
                set_prefill(i + 1);
                let got = subject.run(op);
                stats.executed += 1;
                if got != expected[i] {
                    bad.push(Mismatch {
                        replay: 'A',
                        op: i,
                        got,
                    });
                }
            }
            // B: random permutation, same object
            let mut order: Vec<usize> = (0..n_ops).collect();
            shuffle(rng, &mut order);
            for &i in &order {
                set_prefill(i + 2);
                let got = subject.run(&ops[i]);
                stats.executed += 1;
                if got != expected[i] {
                    bad.push(Mismatch {
                        replay: 'B',
                        op: i,
                        got,
                    });
                }
            }
            // C: same object shared by threads; round-robin split, then contiguous chunks
            let round_robin: Vec<Vec<usize>> = (0..threads)
                .map(|j| (j..n_ops).step_by(threads).collect())
                .collect();
            let chunk = n_ops.div_ceil(threads);
            let chunks: Vec<Vec<usize>> = (0..threads)
                .map(|j| ((j * chunk).min(n_ops)..((j + 1) * chunk).min(n_ops)).collect())
                .collect();
            for plan in [&round_robin, &chunks] {
                let (count, mut b) = replay_concurrent(subject, &ops, &expected, plan);
                stats.executed += count;
                bad.append(&mut b);
            }
            for m in bad {
                fail(
                    &mut failures,
                    m.replay,
                    m.op,
                    &expected[m.op].show(),
                    &m.got.show(),
                );
            }
        }
    }

    println!(
        "hist kind={} storage={storage} ops={n_ops} threads={threads} ok={}",
        cfg.describe(),
        u8::from(failures == 0)
    );
    stats.failures += failures;
}

// ---------------------------------------------------------------------------------------------
// neighbours: other interpolators on the same thread, over the same (refilled) user buffers

/// answers of a 1-D interpolator over the given axis / data views: every query through `interp_scalar` one by one, then the
/// whole batch through `interp_array`; bit patterns, `None` for an error, `u64::MAX - 1` marks a panic
fn answers_1d(x: ndarray::ArrayView1<'_, f64>, y: ndarray::ArrayView1<'_, f64>, spline: bool, qs: &[f64]) -> Vec<Option<u64>> {
    let run = || -> Vec<Option<u64>> {
        let mut out = Vec::new();
        macro_rules! go {
            ($it:expr) => {{
                let it = $it;
                for &q in qs {
                    out.push(it.interp_scalar(q).ok().map(f64::to_bits));
                }
                match it.interp_array(&Array1::from(qs.to_vec())) {
                    Ok(a) => out.extend(a.iter().map(|v| Some(v.to_bits()))),
                    Err(_) => out.push(None),
                }
            }};
        }
        if spline {
            go!(Interp1DBuilder::new(y)
                .x(x)
                .strategy(CubicSpline::new().boundary(BoundaryCondition::Natural))
                .build()
                .expect("valid inputs"))
        } else {
            go!(Interp1DBuilder::new(y).x(x).strategy(Linear::new()).build().expect("valid inputs"))
        }
        out
    };
    catch_unwind(AssertUnwindSafe(run)).unwrap_or_else(|_| vec![Some(u64::MAX - 1)])
}

/// D: an interpolator's answers do not depend on which other interpolators the thread has used before — in particular not on
/// one that was built over views of the *same user buffers* (same address, same length) holding other contents at the time.
fn run_neighbours(idx: usize, rng: &mut Rng, stats: &mut Stats) {
    let n = rng.range(3, 9);
    let spline = rng.chance(0.5);
    // A: exactly evenly spaced; B: same first / last value, uneven inside
    let x0 = rng.range(0, 8) as f64 - 4.0;
    let h = [0.5, 1.0, 2.0, 0.25][rng.below(4)];
    let xa: Vec<f64> = (0..n).map(|i| x0 + h * i as f64).collect();
    let mut xb = xa.clone();
    for i in 1..n - 1 {
        let lo = xb[i - 1];
        let hi = xa[i + 1].min(xa[n - 1]);
        xb[i] = lo + (hi - lo) * rng.uniform(0.1, 0.9);
    }
    let ya: Vec<f64> = (0..n).map(|_| rng.uniform(-4.0, 4.0)).collect();
    let yb: Vec<f64> = (0..n).map(|_| rng.uniform(-40.0, 40.0)).collect();
    let queries = |xs: &[f64], rng: &mut Rng| -> Vec<f64> {
        let mut qs: Vec<f64> = xs.to_vec();
        for w in xs.windows(2) {
            qs.push(w[0] + (w[1] - w[0]) * rng.uniform(0.05, 0.95));
        }
        qs
    };
    let qa = queries(&xa, rng);
    let qb = queries(&xb, rng);
    // reference: a thread that has never seen another interpolator, owned copies of the inputs
    let (xb2, yb2, qb2) = (xb.clone(), yb.clone(), qb.clone());
    let expect_b = std::thread::spawn(move || {
        answers_1d(Array1::from(xb2).view(), Array1::from(yb2).view(), spline, &qb2)
    })
    .join()
    .expect("reference thread");
    let (xa2, ya2, qa2) = (xa.clone(), ya.clone(), qa.clone());
    let expect_a = std::thread::spawn(move || {
        answers_1d(Array1::from(xa2).view(), Array1::from(ya2).view(), spline, &qa2)
    })
    .join()
    .expect("reference thread");

    // this thread: one pair of user buffers, first holding A, then refilled with B
    let mut xbuf = xa.clone();
    let mut ybuf = ya.clone();
    let got_a = answers_1d(ndarray::ArrayView1::from(&xbuf[..]), ndarray::ArrayView1::from(&ybuf[..]), spline, &qa);
    xbuf.copy_from_slice(&xb);
    ybuf.copy_from_slice(&yb);
    let got_b = answers_1d(ndarray::ArrayView1::from(&xbuf[..]), ndarray::ArrayView1::from(&ybuf[..]), spline, &qb);
    // and once more the other way round (B's verdicts must not stick to A either)
    xbuf.copy_from_slice(&xa);
    ybuf.copy_from_slice(&ya);
    let got_a2 = answers_1d(ndarray::ArrayView1::from(&xbuf[..]), ndarray::ArrayView1::from(&ybuf[..]), spline, &qa);
    stats.executed += got_a.len() + got_b.len() + got_a2.len();
    let mut failures = 0;
    for (name, got, want) in [("A", &got_a, &expect_a), ("B-after-A-in-the-same-buffers", &got_b, &expect_b), ("A-after-B", &got_a2, &expect_a)] {
        if got != want {
            failures += 1;
            let k = got.iter().zip(want.iter()).position(|(g, w)| g != w).unwrap_or(0);
            println!(
                "FAIL neighbours={idx} replay=D op={name}#{k} x_first={xa:?} x_second={xb:?} expected={:?} got={:?}",
                want.get(k),
                got.get(k)
            );
        }
    }
    println!("hist kind=neighbours-{} storage=views-of-one-user-buffer ops={} threads=1 ok={}", if spline { "spline" } else { "linear" }, got_a.len() + got_b.len() + got_a2.len(), u8::from(failures == 0));
    stats.failures += failures;
}

pub fn main(seed: u64, n: usize) {
    static_assertions();
    let mut rng = Rng(seed);
    let mut stats = Stats::default();
    for idx in 0..n {
        run_history(idx, &mut rng, &mut stats);
    }
    for idx in 0..n.max(8) {
        run_neighbours(idx, &mut rng, &mut stats);
    }
    println!(
        "STATS reference_ok={} reference_err={} reference_panic={} scalar_ops={} rejected_buffer_ops={}",
        stats.ok, stats.err, stats.panic, stats.scalar_ops, stats.rejected_buffers
    );
    println!(
        "SUMMARY histories={n} ops={} failures={}",
        stats.executed, stats.failures
    );
}
