//! `Z`: a transparent stand-in for `i64` as element type of the crate.
//!
//! The crate is generic over its element type and only ever touches it through the `num-traits`
//! and `std::ops` interfaces; `Z` forwards every one of them to `i64` (truncating division,
//! overflow-checked arithmetic as in a debug build, `ToPrimitive`/`NumCast` exactly like `i64`),
//! and additionally implements the traits `SplineNum` bundles so that the one generic protocol
//! runner can be instantiated at it.  What the crate computes at `Z` is what it computes at `i64`.

use std::fmt;
use std::ops::{Add, Div, Mul, Neg, Rem, Sub, SubAssign};

use ndarray::ScalarOperand;
use num_traits::{Euclid, Num, NumCast, One, Pow, ToPrimitive, Zero};

#[derive(Clone, Copy, PartialEq, Eq, PartialOrd, Ord, Default)]
pub struct Z(pub i64);

impl fmt::Debug for Z {
    fn fmt(&self, f: &mut fmt::Formatter<'_>) -> fmt::Result {
        write!(f, "{}", self.0)
    }
}

impl fmt::Display for Z {
    fn fmt(&self, f: &mut fmt::Formatter<'_>) -> fmt::Result {
        write!(f, "{}", self.0)
    }
}

macro_rules! forward {
    ($tr:ident, $m:ident, $checked:ident, $what:literal) => {
        impl $tr for Z {
            type Output = Z;
            fn $m(self, rhs: Z) -> Z {
                Z(self.0.$checked(rhs.0).unwrap_or_else(|| panic!(concat!("attempt to ", $what, " with overflow"))))
            }
        }
    };
}

forward!(Add, add, checked_add, "add");
forward!(Sub, sub, checked_sub, "subtract");
forward!(Mul, mul, checked_mul, "multiply");
forward!(Div, div, checked_div, "divide by zero or");
forward!(Rem, rem, checked_rem, "calculate the remainder with a divisor of zero or");

impl Neg for Z {
    type Output = Z;
    fn neg(self) -> Z {
        Z(self.0.checked_neg().unwrap_or_else(|| panic!("attempt to negate with overflow")))
    }
}

impl SubAssign for Z {
    fn sub_assign(&mut self, rhs: Z) {
        *self = *self - rhs;
    }
}

impl Zero for Z {
    fn zero() -> Z {
        Z(0)
    }
    fn is_zero(&self) -> bool {
        self.0 == 0
    }
}

impl One for Z {
    fn one() -> Z {
        Z(1)
    }
}

impl Num for Z {
    type FromStrRadixErr = std::num::ParseIntError;
    fn from_str_radix(s: &str, radix: u32) -> Result<Z, Self::FromStrRadixErr> {
        i64::from_str_radix(s, radix).map(Z)
    }
}

impl ToPrimitive for Z {
    fn to_i64(&self) -> Option<i64> {
        self.0.to_i64()
    }
    fn to_u64(&self) -> Option<u64> {
        self.0.to_u64()
    }
    fn to_i128(&self) -> Option<i128> {
        self.0.to_i128()
    }
    fn to_u128(&self) -> Option<u128> {
        self.0.to_u128()
    }
    fn to_isize(&self) -> Option<isize> {
        self.0.to_isize()
    }
    fn to_usize(&self) -> Option<usize> {
        self.0.to_usize()
    }
    fn to_f32(&self) -> Option<f32> {
        self.0.to_f32()
    }
    fn to_f64(&self) -> Option<f64> {
        self.0.to_f64()
    }
}

impl NumCast for Z {
    fn from<T: ToPrimitive>(n: T) -> Option<Z> {
        <i64 as NumCast>::from(n).map(Z)
    }
}

impl Pow<Z> for Z {
    type Output = Z;
    fn pow(self, rhs: Z) -> Z {
        let e = u32::try_from(rhs.0).unwrap_or_else(|_| panic!("Z: exponent out of range"));
        Z(self.0.checked_pow(e).unwrap_or_else(|| panic!("attempt to multiply with overflow")))
    }
}

impl ScalarOperand for Z {}

impl Euclid for Z {
    fn div_euclid(&self, v: &Z) -> Z {
        Z(self.0.checked_div_euclid(v.0).unwrap_or_else(|| panic!("attempt to divide by zero or with overflow")))
    }
    fn rem_euclid(&self, v: &Z) -> Z {
        Z(self.0.checked_rem_euclid(v.0).unwrap_or_else(|| panic!("attempt to calculate the remainder with a divisor of zero or with overflow")))
    }
}

#[cfg(test)]
mod tests {
    use super::*;

    #[test]
    fn forwards_to_i64() {
        for a in [-7i64, -1, 0, 1, 5, 9_007_199_254_740_993] {
            for b in [-3i64, -1, 1, 2, 4] {
                assert_eq!((Z(a) / Z(b)).0, a / b);
                assert_eq!((Z(a) % Z(b)).0, a % b);
                assert_eq!(Euclid::rem_euclid(&Z(a), &Z(b)).0, a.rem_euclid(b));
                assert_eq!(Euclid::div_euclid(&Z(a), &Z(b)).0, a.div_euclid(b));
            }
            assert_eq!(Z(a).to_usize(), a.to_usize());
            assert_eq!(Z(a).to_f64(), a.to_f64());
            assert_eq!(<Z as NumCast>::from(a as f64).map(|z| z.0), <i64 as NumCast>::from(a as f64));
        }
        assert_eq!(<Z as NumCast>::from(2.9f64), Some(Z(2)));
        assert_eq!(<Z as NumCast>::from(-0.5f64), Some(Z(0)));
        assert_eq!(<Z as NumCast>::from(f64::NAN), None);
    }
}
