//! Verification harness for jonasBoss/ndarray-interp: runs the real crate (path dependency on
//! /repo, rebuilt from its working tree) on protocol cases — runner for the element type(s) i64 and i32 (through the stand-ins Z, Z32).

#![allow(dead_code)]
mod bigint;
mod proto;
mod q;
mod run;
mod z;
mod z32;

use proto::Toks;

fn dispatch(s: &str, t: &mut Toks) -> Result<(bool, String), String> {
    match s {
        "I" => run::op::<z::Z>(t),
        "J" => run::op::<z32::Z32>(t),
        _ => Err(format!("scalar type {s} is not served by this runner")),
    }
}

fn main() {
    run::serve(dispatch);
}
